#!/usr/bin/env python3-vt
"""C11 separation (engine E3): no XOR of 1..4 distinct Zobrist feature keys is zero.

The keys are dumped from the real build (behaviourally: hash of an empty board after the real writer ran once).
Weight 1 is a single z3 query over an index-to-key function. Weights 2 to 4 are split into cubes by the low
CUBE_BITS bits of each key: an XOR of keys can only vanish if the XOR of their low-bit classes vanishes, so the
cubes "one key from each class of a zero-XOR class tuple" partition the whole search space. Every cube is one z3
query (unsat = no collision in that cube). A satisfying model is returned as the indices of the colliding keys
and re-checked on the dumped constants.

usage: zobrist.py <keys.json> <max_weight> <out.json> [workers]
"""
import sys, json, time, itertools, collections, multiprocessing
import z3

CUBE_BITS = 6


def load(path):
    d = json.load(open(path))
    keys, names = [], []
    for i, k in enumerate(d["piece"]):
        c, r = divmod(i, 384)
        p, s = divmod(r, 64)
        keys.append(k)
        names.append("piece(color=%d,piece=%d,square=%d)" % (c, p, s))
    # castle keys per (colour, wing, file). The implementation keys a right by (colour, file) only, so the two wings of
    # a file share one key by design (the property counts 2*8 castle keys): such twins are entered once. Keys that
    # coincide across different files or colours are NOT merged - they are exactly the collisions being looked for.
    ck = d["castle"]
    for c in range(2):
        for f in range(8):
            ks, kl = ck[c * 16 + f], ck[c * 16 + 8 + f]
            if ks == kl:
                keys.append(ks)
                names.append("castle(color=%d,file=%d)" % (c, f))
            else:
                keys.append(ks)
                names.append("castle(color=%d,wing=short,file=%d)" % (c, f))
                keys.append(kl)
                names.append("castle(color=%d,wing=long,file=%d)" % (c, f))
    for f, k in enumerate(d["ep"]):
        keys.append(k)
        names.append("ep(file=%d)" % f)
    keys.append(d["side"])
    names.append("side")
    return keys, names


def key_fn(idx, members, keys):
    """ITE chain: the key selected by the symbolic index idx among members."""
    t = z3.BitVecVal(keys[members[-1]], 64)
    for m in reversed(members[:-1]):
        t = z3.If(idx == m, z3.BitVecVal(keys[m], 64), t)
    return t


def small_weights(keys):
    """weight 1, monolithic."""
    out = []
    n = len(keys)
    all_idx = list(range(n))
    for w in (1,):
        s = z3.Solver()
        idx = [z3.BitVec("i%d" % j, 10) for j in range(w)]
        x = z3.BitVecVal(0, 64)
        for j in range(w):
            s.add(z3.ULT(idx[j], n))
            if j:
                s.add(z3.ULT(idx[j - 1], idx[j]))
            x = x ^ key_fn(idx[j], all_idx, keys)
        s.add(x == 0)
        t0 = time.time()
        r = s.check()
        res = {"weight": w, "result": str(r), "solver_s": round(time.time() - t0, 2), "cubes": 1}
        if r == z3.sat:
            m = s.model()
            res["model"] = [m[i].as_long() for i in idx]
        out.append(res)
    return out


_G = {}


def _init(keys, classes):
    _G["keys"] = keys
    _G["classes"] = classes


def run_cube(tup):
    keys, classes = _G["keys"], _G["classes"]
    s = z3.Solver()
    idx = [z3.BitVec("i%d" % j, 10) for j in range(len(tup))]
    x = z3.BitVecVal(0, 64)
    for j, c in enumerate(tup):
        mem = classes[c]
        s.add(z3.Or([idx[j] == m for m in mem]))
        if j and tup[j - 1] == c:
            s.add(z3.ULT(idx[j - 1], idx[j]))  # same class: ordered, hence distinct
        x = x ^ key_fn(idx[j], mem, keys)
    s.add(x == 0)
    t0 = time.time()
    r = s.check()
    if r == z3.sat:
        m = s.model()
        return (tup, "sat", time.time() - t0, [m[i].as_long() for i in idx])
    return (tup, str(r), time.time() - t0, None)


def cubes_for(weight, classes):
    present = sorted(classes)
    pres = set(present)
    out = []
    for tup in itertools.combinations_with_replacement(present, weight - 1):
        last = 0
        for c in tup:
            last ^= c
        if last in pres and last >= tup[-1]:
            full = tup + (last,)
            # a class used k times must have at least k members
            cnt = collections.Counter(full)
            if all(len(classes[c]) >= k for c, k in cnt.items()):
                out.append(full)
    return out


def mitm(keys, maxw):
    """Independent cross-check of the solver verdicts (not the deciding step): meet in the middle on pair XORs."""
    n = len(keys)
    found = []
    if 0 in keys:
        found.append([keys.index(0)])
    pair = {}
    for i in range(n):
        for j in range(i + 1, n):
            x = keys[i] ^ keys[j]
            if x == 0:
                found.append([i, j])
            if maxw >= 4 and x in pair:
                a, b = pair[x]
                if len({a, b, i, j}) == 4:
                    found.append([a, b, i, j])
            pair.setdefault(x, (i, j))
    if maxw >= 3:
        ks = {k: i for i, k in enumerate(keys)}
        for x, (i, j) in pair.items():
            if x in ks and ks[x] not in (i, j):
                found.append(sorted([i, j, ks[x]]))
                break
    return found


def main():
    path, maxw, outp = sys.argv[1], int(sys.argv[2]), sys.argv[3]
    workers = int(sys.argv[4]) if len(sys.argv) > 4 else 16
    keys, names = load(path)
    classes = collections.defaultdict(list)
    for i, k in enumerate(keys):
        classes[k & ((1 << CUBE_BITS) - 1)].append(i)
    classes = dict(classes)
    results = small_weights(keys)
    models = [(r["weight"], r["model"]) for r in results if r.get("model")]
    for w in range(2, maxw + 1):
        cubes = cubes_for(w, classes)
        t0 = time.time()
        with multiprocessing.Pool(workers, initializer=_init, initargs=(keys, classes)) as pool:
            rs = pool.map(run_cube, cubes, chunksize=16)
        sat = [r for r in rs if r[1] == "sat"]
        unk = [r for r in rs if r[1] not in ("sat", "unsat")]
        res = {"weight": w, "cubes": len(cubes), "unsat": sum(1 for r in rs if r[1] == "unsat"), "sat": len(sat),
               "unknown": len(unk), "solver_s": round(sum(r[2] for r in rs), 1), "wall_s": round(time.time() - t0, 1),
               "sample_cubes": [list(r[0]) for r in rs[:3]]}
        res["result"] = "sat" if sat else ("unknown" if unk else "unsat")
        for r in sat:
            models.append((w, r[3]))
        results.append(res)
    # replay every model on the dumped constants
    confirmed = []
    for w, m in models:
        x = 0
        for i in m:
            x ^= keys[i]
        if x == 0 and len(set(m)) == len(m):
            confirmed.append({"weight": w, "indices": m, "features": [names[i] for i in m], "keys": [keys[i] for i in m]})
    cross = mitm(keys, maxw)
    json.dump({"n_keys": len(keys), "cube_bits": CUBE_BITS, "results": results, "collisions": confirmed,
               "models_not_confirmed": len(models) - len(confirmed),
               "mitm_cross_check": {"collisions_found": len(cross), "first": cross[:1]}}, open(outp, "w"), indent=1)


if __name__ == "__main__":
    main()
