"""Check driver: runs a property's plan (a list of solver queries) in parallel lanes,
replays counterexamples natively before reporting, applies known findings, writes
evidence and maps everything to the exit-code contract."""
import os, sys, json, time, hashlib, subprocess, threading, queue, shutil

sys.path.insert(0, os.path.dirname(os.path.abspath(__file__)))
import kani

VERIF = kani.VERIF
HARNESS = kani.HARNESS
WORK = kani.WORK
NATIVE_TGT = os.path.join(WORK, "native")
REPLAYS = os.path.join(VERIF, "replays")
KNOWN = os.path.join(VERIF, "known_findings.json")

_native_lock = threading.Lock()
_native_built = {}


def build_native(profile, bins=("replay",), features=None, extra_rustflags=""):
    """Build the native helper binaries against /repo's current tree. profile: dev|release."""
    key = (profile, tuple(bins), features, extra_rustflags)
    with _native_lock:
        if key in _native_built:
            return _native_built[key]
        tgt = NATIVE_TGT + ("-" + features if features else "")
        cmd = ["cargo", "build", "--offline", "--target-dir", tgt]
        for b in bins:
            cmd += ["--bin", b]
        if profile == "release":
            cmd.append("--release")
        if features:
            cmd += ["--features", features]
        env = kani._env(extra_rustflags)
        r = subprocess.run(cmd, cwd=HARNESS, env=env, capture_output=True, text=True)
        ok = r.returncode == 0
        d = os.path.join(tgt, "release" if profile == "release" else "debug")
        _native_built[key] = (ok, d, r.stderr[-2000:])
        return _native_built[key]


def native_replay(harness, vals):
    """Replay in dev and release. Returns {profile: (rc, first output line)}."""
    res = {}
    arg = json.dumps(vals)
    for prof in ("dev", "release"):
        ok, d, err = build_native(prof)
        if not ok:
            res[prof] = (2, "build failed: " + err[-300:])
            continue
        try:
            r = subprocess.run([os.path.join(d, "replay"), harness, arg], capture_output=True, text=True, timeout=300)
            lines = [l for l in r.stdout.splitlines() if l.strip()]
            res[prof] = (r.returncode, "\n".join(lines[-12:]))
        except subprocess.TimeoutExpired:
            res[prof] = (2, "native replay timed out")
    return res


def load_known():
    if not os.path.exists(KNOWN):
        return {"findings": [], "fixed": []}
    return json.load(open(KNOWN))


class Result:
    def __init__(self, prop, tier, seed):
        self.prop, self.tier, self.seed = prop, tier, seed
        self.queries = []      # per-query dicts
        self.violations = []   # (harness, replay path, text)
        self.inconclusive = [] # (harness, reason)
        self.known_hits = []
        self.notrun = []
        self.extra = {}
        self.assumptions = []
        self.functions = []
        self.bounds = {}
        self.t0 = time.time()


QUICK_QUERY_CAP = 660     # seconds: per-query solver cap in the quick tier
QUICK_DEADLINE = 780      # seconds: no quick check runs longer than this (queries still waiting are listed as not run)


def _kill_own_cbmc():
    """Stop the cbmc processes started by THIS check (descendants of this process) - never those of another check running beside it."""
    me = os.getpid()
    out = subprocess.run(["pgrep", "-x", "cbmc"], capture_output=True, text=True).stdout.split()
    for pid in out:
        cur = pid
        for _ in range(12):
            try:
                cur = open("/proc/%s/stat" % cur).read().rsplit(")", 1)[1].split()[1]
            except (OSError, IndexError):
                break
            if cur == str(me):
                try:
                    os.kill(int(pid), 15)
                except OSError:
                    pass
                break
            if cur in ("0", "1"):
                break



def run_plan(res, queries, workers=8, mem_budget_gb=56, logdir=None):
    """Run Kani queries over parallel lanes under a total memory budget. In the quick tier every query is capped and the
    whole plan has a deadline, so that the check stays a check one runs on every change."""
    if os.environ.get("VERIF_DRY") == "1":
        for q in queries:
            print("DRY", q.harness)
        return []
    workers = max(workers, 14)
    t_start = res.t0
    if res.tier == "quick":
        for q in queries:
            q.timeout = min(q.timeout, QUICK_QUERY_CAP)
    logdir = logdir or os.path.join(WORK, "logs", res.prop)
    os.makedirs(logdir, exist_ok=True)
    todo = list(queries)
    lock = threading.Lock()
    state = {"mem": 0.0}
    cv = threading.Condition(lock)
    lanes = queue.Queue()
    for i in range(workers):
        lanes.put(i)
    results = []

    stop = {"flag": False}
    early = os.environ.get("VERIF_STOP_ON_VIOLATION") == "1"

    def work(q):
        if stop["flag"]:
            res.notrun.append(q.harness + " (skipped: a violation was already confirmed and VERIF_STOP_ON_VIOLATION=1)")
            return
        need = q.mem_gb * 0.6  # scheduling estimate: peak RSS is well below the ulimit given to the query
        with cv:
            while state["mem"] + need > mem_budget_gb and state["mem"] > 0:
                cv.wait()
            state["mem"] += need
        if res.tier == "quick":
            left = QUICK_DEADLINE - (time.time() - t_start)
            if left < 60:
                with cv:
                    state["mem"] -= need
                    cv.notify_all()
                res.notrun.append(q.harness + " (not started: the quick tier's deadline of %d s was reached)" % QUICK_DEADLINE)
                return
            q.timeout = min(q.timeout, left)
        lane = lanes.get()
        try:
            r = kani.run_query(q, lane, logdir)
        except Exception as e:  # never let a crash look like a pass
            r = {"harness": q.harness, "status": "inconclusive", "reason": "runner exception: %r" % (e,), "wall_s": 0}
        finally:
            lanes.put(lane)
            with cv:
                state["mem"] -= need
                cv.notify_all()
        if early and r.get("status") == "fail":
            with lock:
                handle_result(res, r)
                r["_handled"] = True
                if res.violations:
                    stop["flag"] = True
                    # stop the queries still running: their verdict is no longer needed
                    _kill_own_cbmc()
        with lock:
            results.append(r)
        sys.stderr.write("[%s] %-40s %-12s %6.1fs vars=%s clauses=%s %s\n" % (
            res.prop, q.harness.split("::")[-1], r["status"], r.get("wall_s", 0), r.get("vars"), r.get("clauses"),
            ("rss=%sG " % r.get("maxrss_gb")) + r.get("reason", "")))
        sys.stderr.flush()

    threads = []
    # largest first so that the long poles start early
    todo.sort(key=lambda q: -q.timeout)
    sem = threading.Semaphore(workers)

    def runner(q):
        with sem:
            work(q)

    for q in todo:
        t = threading.Thread(target=runner, args=(q,))
        t.start()
        threads.append(t)
    for t in threads:
        t.join()
    for r in results:
        if not r.get("_handled"):
            if stop["flag"] and r.get("status") == "inconclusive":
                res.notrun.append(r["harness"] + " (stopped after a confirmed violation)")
                continue
            handle_result(res, r)
    return results


def handle_result(res, r):
    res.queries.append(r)
    if r["status"] == "inconclusive":
        res.inconclusive.append((r["harness"], r.get("reason", "")))
    elif r["status"] == "fail":
        confirm_violation(res, r)


def confirm_violation(res, r):
    harness = r["harness"]
    vals = r.get("witness_vals")
    if not vals:
        res.inconclusive.append((harness, "failed check %s but no concrete witness could be extracted" % (r.get("failed", [{}])[0].get("desc"),)))
        r["status"] = "inconclusive"
        return
    # one witness per failed check: take the first that reproduces natively
    nat, reproduced = None, []
    for cand in (r.get("witness_list") or [vals])[:6]:
        nat = native_replay(harness.split("::")[-1], cand)
        reproduced = [k for k, v in nat.items() if v[0] == 1]
        if reproduced:
            vals = cand
            break
    r["native_replay"] = {k: {"rc": v[0], "out": v[1]} for k, v in nat.items()}
    if not reproduced:
        why = "; ".join("%s: rc=%s %s" % (k, v[0], v[1].splitlines()[-1] if v[1] else "") for k, v in nat.items())
        res.inconclusive.append((harness, "counterexample did not reproduce natively - encoding or stub suspect (%s)" % why))
        r["status"] = "inconclusive"
        return
    text = nat[reproduced[0]][1]
    os.makedirs(os.path.join(REPLAYS, res.prop), exist_ok=True)
    h = hashlib.sha1(json.dumps(vals).encode()).hexdigest()[:10]
    path = os.path.join(REPLAYS, res.prop, "%s-%s.json" % (harness.split("::")[-1], h))
    json.dump({"property": res.prop, "kind": "kani", "harness": harness, "vals": vals, "failed_checks": r.get("failed"),
               "native": r["native_replay"], "reproduced_in": reproduced}, open(path, "w"), indent=1)
    res.violations.append((harness, path, text))


def add_native_violation(res, name, payload, text):
    """A violation whose witness is replayed by a dedicated native command (z3/MIR engines)."""
    os.makedirs(os.path.join(REPLAYS, res.prop), exist_ok=True)
    h = hashlib.sha1(json.dumps(payload, sort_keys=True).encode()).hexdigest()[:10]
    path = os.path.join(REPLAYS, res.prop, "%s-%s.json" % (name, h))
    json.dump(dict(payload, property=res.prop, text=text), open(path, "w"), indent=1)
    res.violations.append((name, path, text))


def finish(res, level_rule, samples_extra=None):
    """Write evidence, print contract lines, return the exit code."""
    known = load_known()
    real_violations = []
    for (h, path, text) in res.violations:
        hit = None
        for k in known.get("findings", []):
            if k.get("property") == res.prop and k.get("harness") in (h, h.split("::")[-1]) and k.get("match", "") in text:
                hit = k
                break
        if hit:
            print("KNOWN-FINDING: property=%s %s" % (res.prop, hit.get("what", "")))
            res.known_hits.append(hit.get("what", ""))
        else:
            real_violations.append((h, path, text))
    decided = [q for q in res.queries if q["status"] in ("pass", "fail")]
    nontrivial = [q for q in decided if (q.get("clauses") or 0) > 0 or q.get("kind") in ("smt", "native-gate")]
    samples = []
    for q in res.queries[:40]:
        s = {k: q.get(k) for k in ("harness", "status", "vars", "clauses", "symex_s", "solver_s", "wall_s", "covers_sat",
                                   "covers_total", "checks", "note", "reason", "kind", "detail", "maxrss_gb") if q.get(k) not in (None, "")}
        samples.append(s)
    if samples_extra:
        samples += samples_extra
    cov = {
        "evaluations": max(len(res.queries), 1),
        "distinct_nontrivial": len({q["harness"] for q in nontrivial}),
        "rule": level_rule,
        "samples": samples or [{"note": "no query ran"}],
        "exhaustive": False,
        "functions_encoded": res.functions,
        "bounds": res.bounds,
        "queries_discharged": len([q for q in decided if q["status"] == "pass"]),
        "queries_undecided": [{"query": h, "reason": why} for h, why in res.inconclusive],
        "queries_not_run_this_tier": res.notrun,
        "solver_time_s": round(sum((q.get("solver_s") or 0) + (q.get("symex_s") or 0) for q in res.queries), 1),
        "stubs": sorted({s for q in res.queries for s in (q.get("stubs") or [])}),
        "unwind_tables": {q["harness"].split("::")[-1]: q["unwind_table"] for q in res.queries if q.get("unwind_table")},
        "known_findings_hit": res.known_hits,
    }
    cov.update(res.extra)
    ev = {
        "property_id": res.prop,
        "tier": res.tier,
        "seed": res.seed,
        "level": "model_checking",
        "coverage": cov,
        "assumptions": res.assumptions,
        "wall_s": round(time.time() - res.t0, 1),
        "violations": len(real_violations),
    }
    # seeded-change runs (bin/seedtest) write their evidence elsewhere so that evidence/ always describes the real tree
    evdir = os.environ.get("VERIF_EVIDENCE_DIR") or os.path.join(VERIF, "evidence")
    os.makedirs(evdir, exist_ok=True)
    json.dump(ev, open(os.path.join(evdir, res.prop + ".json"), "w"), indent=1)
    for (h, path, text) in real_violations:
        print("VIOLATION property=%s replay=%s" % (res.prop, path))
        for l in text.splitlines()[-6:]:
            print("  | " + l)
    if real_violations:
        return 1
    if res.inconclusive:
        for h, why in res.inconclusive:
            print("INCONCLUSIVE property=%s query=%s: %s" % (res.prop, h.split("::")[-1], why))
        # queries stopped by their time cap are undecided: listed, never counted as discharged, and not an alarm;
        # anything else (failed unwinding assertion, unsatisfied vacuity witness, non-reproducing counterexample,
        # out of memory, solver disagreement) is a machinery problem and exits 2
        hard = [w for _, w in res.inconclusive if not w.startswith("timeout")]
        if hard or not decided:
            return 2
    print("OK property=%s tier=%s queries=%d discharged=%d undecided=%d wall=%.0fs" % (
        res.prop, res.tier, len(res.queries), cov["queries_discharged"], len(res.inconclusive), time.time() - res.t0))
    return 0
