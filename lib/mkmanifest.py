#!/usr/bin/env python3
"""Generates /verif/MANIFEST.json from the claim table below (kept next to the plans so they stay in step)."""
import json, os, subprocess
VERIF = os.path.dirname(os.path.dirname(os.path.abspath(__file__)))

KANI = "bounded model checking of the compiled Rust (Kani 0.68 -> CBMC 6.11 + CaDiCaL), symbolic inputs, unwinding assertions on"
CLAIMS = {
 "C17": dict(
    technique="SAT-based bounded model checking of the real PieceMoves code (Kani/CBMC): symbolic piece, origin, 64-bit destination set and queried move; inductive step over iterator states",
    text="Every value of (piece, origin, destination set, queried move) is covered by the solver: len/is_empty/has are compared with the enumeration model, and iteration is shown correct by one inductive step from every consistent iterator state plus the base case, so the claim is not bounded in the number of destinations; a bounded full iteration (<= 3 destinations) cross-checks the invariant through the public API.",
    note="Trusted: Kani's MIR->goto translation and its models of count_ones/trailing_zeros, CBMC, the add-only iterator-state hook. Bounds: none on the inputs; full-iteration cross-check bounded to 3 destinations.",
    design="DESIGN.md §3 C17"),
 "C18": dict(
    technique="SAT-based bounded model checking of the real BitBoard code (Kani/CBMC) over symbolic 64-bit words; inductive steps for both iterators",
    text="All operators and predicates are compared element-wise with their set definitions for all 2^64 (pairs of) bitboards and a symbolic square; both iterators are decided by an inductive step from an arbitrary state (next = least member / least greater subset, exact remaining length), with bounded full iterations as a cross-check.",
    note="Trusted: Kani/CBMC, the add-only iterator-state hooks. Bounds: collect <= 4 squares; full-iteration cross-checks <= 8 members / <= 3-square sets; everything else unbounded over the inputs.",
    design="DESIGN.md §3 C18"),
 "C19": dict(
    technique="SAT-based bounded model checking of the real coordinate and text code (Kani/CBMC): all squares x all i8 x i8 offsets, all values, all UTF-8 strings up to 6 bytes; release-profile arithmetic by MIR->SMT (z3/cvc5)",
    text="Coordinate functions are compared with plain arithmetic for every argument; try_offset is shown total in the overflow-checked profile by Kani and in the wrapping profile by an SMT query over the release MIR; parsers are decided on every valid UTF-8 string up to the stated length against the regular language the formatters produce, and every value is formatted and parsed back.",
    note="Bounds: strings <= 6 bytes (Move), <= 3 (Square), <= 2 (one-character types); longer strings are outside the claim. Trusted: Kani/CBMC, core::fmt as compiled, the MIR->SMT translator (validated against native evaluation each run).",
    design="DESIGN.md §3 C19"),
}

NOT_YET = {}

def main():
    props = [json.loads(l) for l in open(os.path.join(VERIF, "properties.jsonl"))]
    na_path = os.path.join(VERIF, "lib", "not_applicable.json")
    na = json.load(open(na_path)) if os.path.exists(na_path) else {}
    checks = []
    for p in props:
        pid = p["id"]
        if pid not in CLAIMS:
            continue
        c = CLAIMS[pid]
        checks.append({
            "property_id": pid,
            "quick_cmd": "bin/check %s --tier quick" % pid,
            "thorough_cmd": "bin/check %s --tier thorough" % pid,
            "evidence_file": "evidence/%s.json" % pid,
            "replay_cmd_template": "bin/check %s --replay {path}" % pid,
            "engine": c.get("engine", "kani"),
            "level_claimed": {"category": "model_checking", "text": c["text"], "design_ref": c["design"]},
            "level_note": c["note"],
            "technique": c["technique"],
        })
    not_app = []
    for p in props:
        pid = p["id"]
        if pid in CLAIMS:
            continue
        not_app.append({"property_id": pid, "reason": na.get(pid, "check not built yet in this session (design in DESIGN.md §3); not claimed until its solver queries run")})
    hooks = subprocess.run(["git", "-C", "/repo", "log", "--format=%h %s", "--grep=^verif hooks"], capture_output=True, text=True).stdout.strip().splitlines()
    m = {
        "version": 1,
        "setup_cmd": "bin/setup",
        "hooks": {
            "guard": "--cfg cozy_chess_verif",
            "enable": "RUSTFLAGS='--cfg cozy_chess_verif' (set by lib/kani.py for every cargo kani / cargo build of /verif/harness, which has path dependencies on /repo/cozy-chess and /repo/types)",
            "baseline_off_cmd": "cd /repo && cargo test --workspace --no-fail-fast --offline",
            "source_commits": [h.split()[0] for h in hooks],
            "add_only": True,
        },
        "engines": [
            {"name": "kani", "path": "lib/kani.py", "serves_properties": sorted(CLAIMS), "kind_free_text": KANI},
            {"name": "mir2smt", "path": "mir2smt/", "serves_properties": ["C05", "C19"], "kind_free_text": "symbolic execution of rustc MIR dumps of loop-free integer functions into SMT-LIB2 bit-vector queries, decided by z3 and cross-checked with cvc5"},
            {"name": "zobrist-cubes", "path": "lib/zobrist.py", "serves_properties": ["C11"], "kind_free_text": "z3 cube-and-conquer over the Zobrist keys dumped from the real writers"},
        ],
        "checks": checks,
        "not_applicable": not_app,
        "notes": "All checks: bin/check <Cxx> --tier quick|thorough. Exit 0 = held on everything explored (capped queries listed as undecided in evidence), 1 = violation confirmed by native replay, 2 = machinery problem. Known findings / fixed defects: known_findings.json.",
    }
    json.dump(m, open(os.path.join(VERIF, "MANIFEST.json"), "w"), indent=1)
    print("claimed:", [c["property_id"] for c in checks])

main()
