#!/usr/bin/env python3
"""Generates /verif/MANIFEST.json from the claim table below (kept next to the plans so they stay in step)."""
import json, os, subprocess
VERIF = os.path.dirname(os.path.dirname(os.path.abspath(__file__)))

KANI = "bounded model checking of the compiled Rust (Kani 0.68 -> CBMC 6.11 + CaDiCaL), symbolic inputs, unwinding assertions on"
BRD = ("SAT-based bounded model checking of the real code (Kani/CBMC) on a raw symbolic board with no piece-count bound; acceptance is the "
       "reference predicate proved equal to the real validators; table lookups stubbed by formulas proved equal in C05; cube-and-conquer over "
       "piece kind x number of checkers")
TB = ("Trusted: Kani's MIR->goto translation, CBMC/CaDiCaL, the reference model (validated natively each run against the repository's test positions; "
      "its fills proved equal to a ray walk), the add-only hooks. ")
CLAIMS = {
 "C01": dict(technique=BRD + "; per-origin generation vs make-move legality oracle",
    text="For every accepted board (no piece bound), every origin square and every move value the solver decides that generation restricted to that origin yields exactly the reference-legal moves of that origin, each in exactly one non-empty batch, in <= 2 batches, without panic; the FULL mask is the union over origins through the dispatch layer decided in C16. Both slider back ends are covered through C05's equivalence of each back end with the stub formulas.",
    note=TB + "Bounds: none on pieces. Quick decides the statement compositionally: dispatch layer with generators stubbed + every real generator on one and on two origins of its kind + silence on foreign masks + double-check lemma, plus three rotating cubes over the public generate_moves_for; thorough runs all 21 public-entry cubes. Masks with three or more pieces of one kind rest on the loops' per-iteration independence (not solver-decided).",
    design="DESIGN.md §3 C01"),
 "C02": dict(technique=BRD + "; one inductive step (play_unchecked) from an arbitrary accepted board with an arbitrary legal move",
    text="One symbolic step decides, for every accepted board and legal move, that placement, side, rights, en-passant file and both clocks of the successor equal the rules' successor and that the successor is again accepted (closure), so the statement extends to histories of any length by induction.",
    note=TB + "Bounds: quick assumes <= 2 own sliders on the enemy king's lines after the move (slider loop unwound 3); thorough has no such bound. Cubes by moved piece kind incl. castling.",
    design="DESIGN.md §3 C02"),
 "C03": dict(technique=BRD + "; inductive step for incremental checkers/pins + constructor-vs-reference lemma",
    text="The step harness decides checkers and pinned of the successor equal the from-scratch reference for every accepted board and legal move; C14's harness does the same for null moves and C06's fresh harness ties the constructor to the same reference, so incremental == fresh along any history.",
    note=TB + "Bounds as C02 (slider-alignment bound in quick; none in thorough); fresh lemma bounded by <= 4 (quick) / 8..16 (thorough) aligned sliders.",
    design="DESIGN.md §3 C02/C03"),
 "C04": dict(technique=BRD + "; is_legal vs make-move legality oracle for all 64*64*7 move values",
    text="For every accepted board and every move value the solver decides is_legal == reference legality (21 cubes partition the space); thorough adds is_legal == 'generated for that origin' without any oracle.",
    note=TB + "Bounds: none on pieces or moves.", design="DESIGN.md §3 C04"),
 "C05": dict(technique="Kani/CBMC for the small tables, const sliders and index-function bridge (all squares x all 2^64 occupancies); MIR->SMT (z3, cvc5 cross-check) for the magic/PEXT index function + generated table, one query pair per (square, slider)",
    text="Every lookup is decided against its coordinate-geometry definition for every argument: leapers, pawn pushes, rays, between, line by Kani; const sliders by Kani; the table back ends by symbolically executing the nightly MIR of get_*_moves -> get_*_moves_index -> get_magic_index/get_pext_index against the table that the real build.rs generated, over all 2^64 occupancies per square.",
    note="Trusted: Kani/CBMC, z3 (diffed with cvc5 and z3 4.8 on exported queries), the MIR->SMT translator (validated each run against native evaluation), rustc CTFE for the const tables. PEXT back end in the thorough tier only.",
    design="DESIGN.md §3 C05", engine="kani+mir2smt"),
 "C06": dict(technique="Kani/CBMC: each real validator vs its reference predicate on raw symbolic boards; build() on a fully symbolic 64-cell builder with validators stubbed by the reference predicates; symbolic Scharnagl numbers; closure from the step harnesses",
    text="Soundness: real validators are decided equal to predicates written from the property (one king per side, kings apart, piece/pawn counts, no pawns on end ranks, opponent not in check, rights backed by king/rook on the right side, ep file backed by a pushed pawn with empty origin/passed squares, clocks), and build() accepts exactly those states. Acceptance: start positions of all 960x960 pairs are accepted and every step (C02, C14) preserves acceptance.",
    note=TB + "Bounds: slider loops in the validators bounded by <= 4 (quick) / 8 and 16 (thorough) aligned sliders. The FEN text route is decided only at field level (C08).",
    design="DESIGN.md §3 C06"),
 "C08": dict(technique="Kani/CBMC over the real private field parsers (hook) on every valid UTF-8 string up to 3/5/6 bytes",
    text="Claimed at the field layer only: side, castling (both notations, any king squares), en-passant and both clock parsers accept exactly their grammar, write exactly the denoted value, reject the empty field and never panic, for every string up to the stated length; the placement parser rejects every string of <= 2 (quick) / <= 3 (thorough) bytes, which cannot denote eight ranks. Record splitting, error naming across fields and full placement decoding are outside the claim (measured out of reach).",
    note="Bounds: strings <= 3 (side, ep), <= 5 (castling), <= 6 (clocks), <= 2/3 (placement) bytes. The placement queries replace core::slice::memchr::{memchr,memrchr} by their definitions (environment stub). Trusted: Kani/CBMC, core::str as compiled.",
    design="DESIGN.md §3 C08"),
 "C09": dict(technique="Kani/CBMC: build() sequencing and error attribution on a fully symbolic builder (validators stubbed by reference predicates); from_board on accepted boards; field parsers vs the same writers",
    text="Builder side in full: build() succeeds exactly on accepted states, the board's fields equal the builder's content, and the error names the first wrong aspect (incl. ep square on the wrong rank, right on the wrong side of the king, three checkers); from_board reproduces position and clocks. Parser side at field level only (C08).",
    note=TB + "Record-level equality from_fen(text) == build(state) is outside the claim. Quick: builder with pieces confined to three ranks (rotating with VERIF_SEED), from_board <= 4 pieces per colour; thorough: 64-cell builder, from_board unbounded.",
    design="DESIGN.md §3 C09"),
 "C10": dict(technique=BRD + "; hash of the successor == XOR of behavioural feature keys (step), writers linear in the keys (every raw state)",
    text="Every writer changes the hash by exactly the keys of the features it adds/removes from any raw state; play_unchecked and null_move keep hash == XOR of feature keys of the position; hash_without_ep strips exactly the ep key; the builder route is decided in C09 (thorough). Hence the hash is a function of the position alone.",
    note=TB + "Bounds as C02 for the step; quick runs the castle cube and one rotating piece cube (7-20 min per cube), thorough all seven without the slider bound. The hash change is stated sparsely (keys looked up through the real writers); the builder route is covered compositionally (linearity + build() content equality). Clocks never enter any key.", design="DESIGN.md §3 C10, §10.2"),
 "C11": dict(technique="Kani/CBMC for linearity of the writers; z3 cube-and-conquer over the 793 dumped keys for XORs of 1..4 distinct keys (cubes by low-6-bit class), cross-checked by a meet-in-the-middle computation",
    text="The hash is the XOR of feature keys (linearity + C10), and no XOR of 1..4 distinct keys is zero: complete over all key tuples in both tiers (1 + 64 + 715 + ~12.5k cubes), each cube decided by z3.",
    note="Trusted: z3, the key dump through the writer hooks. Castle keys shared by the two wings of one file count once.", design="DESIGN.md §3 C11", engine="kani+z3"),
 "C12": dict(technique="Kani/CBMC: status() with generate_moves stubbed by an arbitrary answer (every board value); dispatch/abort layer with generators stubbed; per-origin abort harnesses",
    text="status() equals the table (has-move, clock, in-check) for every board value; 'has a legal move' is generate_moves(|_| true), whose result is decided by the dispatch harness (true iff some batch is delivered) and the per-origin harnesses (batches are the legal moves, C01).",
    note=TB + "Compositional: no single query runs status() with the real generator on a symbolic board.", design="DESIGN.md §3 C12"),
 "C13": dict(technique=BRD + "; same_position vs reference identity with an ep-less twin board",
    text="For every accepted board with an ep file: same_position with its ep-less twin (arbitrary clocks) is true exactly when no legal en-passant capture exists (incl. a non-pawn standing beside the pushed pawn), in both argument orders; thorough adds reflexivity and the same board under two different ep files against reference identity.",
    note=TB + "Hashes modelled as an arbitrary function of the position (C10). Two arbitrary boards in one query (c13_pair) did not finish and is not part of the claim; pairs differing in placement/side/rights are covered only through the shared board_is_equal/hash comparison being exercised by the twin harnesses.", design="DESIGN.md §3 C13, §10.6"),
 "C14": dict(technique=BRD + "; one null-move step from an arbitrary accepted board",
    text="null_move is None exactly in check; otherwise placement/rights unchanged, side flipped, ep cleared, clocks saturating, checkers/pins/hash equal the reference of the new position, and the result is accepted (closure).",
    note=TB + "Bounds: <= 4 aligned enemy sliders in quick, none in thorough.", design="DESIGN.md §3 C14"),
 "C15": dict(technique="Kani/CBMC: try_play/play with is_legal and play_unchecked stubbed (stub answers the reference legality) on every accepted board and move value; plus C04 cubes tying is_legal to that legality",
    text="try_play is Ok exactly when the move is legal, then equals unchecked play; on Err the board is equal in every field; play panics exactly on illegal moves (should_panic harness with an unreachable marker).",
    note=TB + "Compositional with C04/C02.", design="DESIGN.md §3 C15"),
 "C16": dict(technique="Kani/CBMC: dispatch/abort layer with the six generators stubbed by arbitrary batch emitters (every board value, mask, abort point); per-origin generation and abort on every accepted board",
    text="generate_moves_for passes the mask unchanged to the right generators in order, stops at the first abort and returns true exactly then; each generator on a single-origin mask yields exactly that origin's legal moves in non-empty batches (<= 2, 2 only for en passant), and aborts correctly at call 0/1; hence <= 18 batches.",
    note=TB + "Multi-origin masks inside one generator loop are covered by the per-iteration independence of the loops, not by a symbolic-mask query.", design="DESIGN.md §3 C16"),
 "C17": dict(
    technique="SAT-based bounded model checking of the real PieceMoves code (Kani/CBMC): symbolic piece, origin, 64-bit destination set and queried move; inductive step over iterator states",
    text="Every value of (piece, origin, destination set, queried move) is covered by the solver: len/is_empty/has are compared with the enumeration model, and iteration is shown correct by one inductive step from every consistent iterator state plus the base case, so the claim is not bounded in the number of destinations; a bounded full iteration (<= 3 destinations) cross-checks the invariant through the public API.",
    note="Trusted: Kani's MIR->goto translation and its models of count_ones/trailing_zeros, CBMC, the add-only iterator-state hook. Bounds: none on the inputs; full-iteration cross-check bounded to 3 destinations.",
    design="DESIGN.md §3 C17"),
 "C18": dict(
    technique="SAT-based bounded model checking of the real BitBoard code (Kani/CBMC) over symbolic 64-bit words; inductive steps for both iterators",
    text="All operators and predicates are compared element-wise with their set definitions for all 2^64 (pairs of) bitboards and a symbolic square; both iterators are decided by an inductive step from an arbitrary state (next = least member / least greater subset, exact remaining length), with bounded full iterations as a cross-check.",
    note="Trusted: Kani/CBMC, the add-only iterator-state hooks. Bounds: collect <= 4 squares; full-iteration cross-checks <= 8 members / <= 3-square sets; everything else unbounded over the inputs.",
    design="DESIGN.md §3 C18"),
 "C19": dict(
    technique="SAT-based bounded model checking of the real coordinate and text code (Kani/CBMC): all squares x all i8 x i8 offsets, all values, all UTF-8 strings up to 6 bytes; release-profile arithmetic by MIR->SMT (z3/cvc5)",
    text="Coordinate functions are compared with plain arithmetic for every argument; try_offset is shown total in the overflow-checked profile by Kani and in the wrapping profile by an SMT query over the release MIR; parsers are decided on every valid UTF-8 string up to the stated length against the regular language the formatters produce, and every value is formatted and parsed back.",
    note="Bounds: strings <= 6 bytes (Move), <= 3 (Square), <= 2 (one-character types); longer strings are outside the claim. Trusted: Kani/CBMC, core::fmt as compiled, the MIR->SMT translator (validated against native evaluation each run).",
    design="DESIGN.md §3 C19", engine="kani+mir2smt"),
 "C20": dict(technique=BRD + "; UCI writer output compared byte-wise with standard UCI and parsed back, for every legal move on orthodox-rights boards",
    text="UCI pair only: on every accepted board whose rights are orthodox and every legal move the writer emits standard UCI (castling as e1g1/e1c1) and the reader inverts it; the reader is total on every string <= 6 bytes. The SAN half is NOT claimed (see level_note).",
    note=TB + "SAN writer/reader are outside the claim: each query needs three full-mask generations plus core::fmt on a symbolic board and did not come within reach.", design="DESIGN.md §3 C20"),
}

ENABLED = ["C01", "C02", "C03", "C04", "C05", "C06", "C08", "C09", "C10", "C11", "C12", "C13", "C14", "C15", "C16", "C17", "C18", "C19", "C20"]

NOT_YET = {}

def main():
    props = [json.loads(l) for l in open(os.path.join(VERIF, "properties.jsonl"))]
    na_path = os.path.join(VERIF, "lib", "not_applicable.json")
    na = json.load(open(na_path)) if os.path.exists(na_path) else {}
    checks = []
    for p in props:
        pid = p["id"]
        if pid not in ENABLED:
            continue
        c = CLAIMS[pid]
        checks.append({
            "property_id": pid,
            "quick_cmd": "bin/check %s --tier quick" % pid,
            "thorough_cmd": "bin/check %s --tier thorough" % pid,
            "evidence_file": "evidence/%s.json" % pid,
            "replay_cmd_template": "bin/check %s --replay {path}" % pid,
            "engine": c.get("engine", "kani"),
            "level_claimed": {"category": "model_checking", "text": c["text"], "design_ref": c["design"]},
            "level_note": c["note"],
            "technique": c["technique"],
        })
    not_app = []
    for p in props:
        pid = p["id"]
        if pid in ENABLED:
            continue
        not_app.append({"property_id": pid, "reason": na.get(pid, "check not built yet in this session (design in DESIGN.md §3); not claimed until its solver queries run")})
    hooks = subprocess.run(["git", "-C", "/repo", "log", "--format=%h %s", "--grep=^verif hooks"], capture_output=True, text=True).stdout.strip().splitlines()
    m = {
        "version": 1,
        "setup_cmd": "bin/setup",
        "hooks": {
            "guard": "--cfg cozy_chess_verif",
            "enable": "RUSTFLAGS='--cfg cozy_chess_verif' (set by lib/kani.py for every cargo kani / cargo build of /verif/harness, which has path dependencies on /repo/cozy-chess and /repo/types)",
            "baseline_off_cmd": "cd /repo && cargo test --workspace --no-fail-fast --offline",
            "source_commits": [h.split()[0] for h in hooks],
            "add_only": True,
        },
        "engines": [
            {"name": "kani", "path": "lib/kani.py", "serves_properties": sorted(ENABLED), "kind_free_text": KANI},
            {"name": "mir2smt", "path": "mir2smt/", "serves_properties": ["C05", "C19"], "kind_free_text": "symbolic execution of rustc MIR dumps of loop-free integer functions into SMT-LIB2 bit-vector queries, decided by z3 and cross-checked with cvc5"},
            {"name": "zobrist-cubes", "path": "lib/zobrist.py", "serves_properties": ["C11"], "kind_free_text": "z3 cube-and-conquer over the Zobrist keys dumped from the real writers"},
        ],
        "checks": checks,
        "not_applicable": not_app,
        "notes": "All checks: bin/check <Cxx> --tier quick|thorough. Exit 0 = held on everything explored (capped queries listed as undecided in evidence), 1 = violation confirmed by native replay, 2 = machinery problem. Known findings / fixed defects: known_findings.json.",
    }
    json.dump(m, open(os.path.join(VERIF, "MANIFEST.json"), "w"), indent=1)
    print("claimed:", [c["property_id"] for c in checks])

main()
