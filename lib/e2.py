"""Engine E2 driver: dumps the nightly MIR of /repo's current tree, runs the MIR->SMT worker (z3), folds the
verdicts into the check result. Counterexamples are replayed against the native build before being reported."""
import os, sys, json, shutil, subprocess, time
import engine, kani

MIRDIR = os.path.join(engine.WORK, "mir")


def dump_mir(crate, overflow_checks, features=None, extra_rustflags=""):
    """-Zunpretty=mir of one workspace crate, from /repo's working tree, into a fresh target dir."""
    tag = "%s-%s-%s" % (crate, "oc" if overflow_checks else "nooc", features or "default")
    tgt = os.path.join(MIRDIR, "tgt-" + tag)
    shutil.rmtree(tgt, ignore_errors=True)
    os.makedirs(MIRDIR, exist_ok=True)
    out = os.path.join(MIRDIR, tag + ".mir")
    cmd = ["cargo", "+nightly", "rustc", "--offline", "-p", crate, "--lib", "--target-dir", tgt]
    if features:
        cmd += ["--features", features]
    cmd += ["--", "-Zunpretty=mir", "-C", "debug-assertions=off", "-C", "overflow-checks=%s" % ("on" if overflow_checks else "off")]
    env = kani._env(extra_rustflags)
    r = subprocess.run(cmd, cwd="/repo", env=env, capture_output=True, text=True)
    shutil.rmtree(tgt, ignore_errors=True)
    if r.returncode != 0 or not r.stdout.strip():
        return None, r.stderr[-400:]
    open(out, "w").write(r.stdout)
    return out, ""


def run_c05(res, tier, seed, pext=False):
    name = "e2:sliders" + ("-pext" if pext else "")
    feats = "pext" if pext else None
    rf = "-C target-feature=+bmi2" if pext else ""
    ok, d, err = engine.build_native("release", bins=("replay", "validate", "dump"), features=feats, extra_rustflags=rf)
    if not ok:
        res.inconclusive.append((name, "native build failed: " + err[-300:]))
        return
    dump = os.path.join(d, "dump")
    tm, e1 = dump_mir("cozy-chess-types", False, feats, rf)
    cm, e2 = dump_mir("cozy-chess", False, feats, rf)
    if not tm or not cm:
        res.inconclusive.append((name, "MIR dump failed: " + (e1 or e2)))
        return
    sj = os.path.join(MIRDIR, "sliders%s.json" % ("-pext" if pext else ""))
    open(sj, "w").write(subprocess.run([dump, "sliders"], capture_output=True, text=True).stdout)
    outp = os.path.join(MIRDIR, "c05%s.json" % ("-pext" if pext else ""))
    t0 = time.time()
    r = subprocess.run(["python3-vt", os.path.join(engine.VERIF, "lib", "e2_worker.py"), "c05", tm, cm, sj, outp, "all", str(seed), dump],
                       capture_output=True, text=True)
    if r.returncode != 0:
        res.inconclusive.append((name, "worker failed: " + r.stderr[-400:]))
        return
    d = json.load(open(outp))
    n_unsat = 0
    solver_s = 0.0
    for q in d["results"]:
        qn = "%s:%s:%d" % (name, q["slider"], q["sq"])
        solver_s += q.get("wall_s", 0)
        if q["status"] == "unsat":
            n_unsat += 1
            bad = [p for p in q.get("probes", []) if p[1] != p[2]]
            if bad:
                res.inconclusive.append((qn, "translator validation failed: formula %s vs native %s at occ=%s" % (bad[0][1], bad[0][2], bad[0][0])))
        elif q["status"] == "sat":
            nat = q.get("native", {})
            text = "%s lookup on square %d with occupancy %#x: real build returns %s (index %s, rc=%s %s), geometric definition %s [%s]" % (
                q["slider"], q["sq"], q["model"], nat.get("value"), nat.get("index"), nat.get("rc"), nat.get("stderr", "").strip()[-80:],
                nat.get("spec"), q.get("why"))
            if nat.get("rc") != 0 or nat.get("value") != nat.get("spec"):
                engine.add_native_violation(res, "sliders-%s-%d" % (q["slider"], q["sq"]),
                                            {"kind": "e2", "slider": q["slider"], "sq": q["sq"], "occ": q["model"], "pext": pext,
                                             "replay_cmd": "%s eval %s %d %d" % (dump, q["slider"], q["sq"], q["model"])}, text)
            else:
                res.inconclusive.append((qn, "solver model did not reproduce natively (encoding suspect): " + text))
        else:
            res.inconclusive.append((qn, "%s: %s" % (q["status"], q.get("reason", ""))))
    fns = sorted({f for q in d["results"] for f in q.get("functions", [])})
    res.queries.append({"harness": name, "kind": "smt", "status": "pass" if n_unsat == len(d["results"]) else "fail",
                        "solver_s": round(solver_s, 1), "wall_s": d["wall_s"],
                        "detail": "%d of %d (square, slider) queries unsat; 2 queries each (index within table slice & no panic; value == ray walk); "
                                  "functions: %s" % (n_unsat, len(d["results"]), ", ".join(fns)),
                        "clauses": 1})
    res.extra.setdefault("e2", {})[name] = {"queries": 2 * len(d["results"]), "unsat_pairs": n_unsat, "cross_solver": d["cross"],
                                            "mir": "nightly -Zunpretty=mir, -C overflow-checks=off (release arithmetic), opt-level 0",
                                            "functions": fns}
    for c in d["cross"]:
        answers = {c["z3py"], c["cvc5"], c["z3_4.8"]} - {"timeout"}
        if len(answers) > 1:
            res.inconclusive.append((name, "solvers disagree on %s %d: %s" % (c["slider"], c["sq"], c)))


def run_c19(res):
    name = "e2:try_offset-release"
    ok, d, err = engine.build_native("release", bins=("replay", "validate", "dump"))
    if not ok:
        res.inconclusive.append((name, "native build failed: " + err[-300:]))
        return
    dump = os.path.join(d, "dump")
    tm, e1 = dump_mir("cozy-chess-types", False)
    if not tm:
        res.inconclusive.append((name, "MIR dump failed: " + e1))
        return
    outp = os.path.join(MIRDIR, "c19.json")
    r = subprocess.run(["python3-vt", os.path.join(engine.VERIF, "lib", "e2_worker.py"), "c19", tm, outp, dump], capture_output=True, text=True)
    if r.returncode != 0:
        res.inconclusive.append((name, "worker failed: " + r.stderr[-400:]))
        return
    d = json.load(open(outp))
    if d["status"] != "ok":
        res.inconclusive.append((name, "not translated: " + d.get("reason", "")))
        return
    bad_probe = [p for p in d["probes"] if p[3] != p[4]]
    if bad_probe:
        res.inconclusive.append((name, "translator validation failed on %s" % (bad_probe[0],)))
    for q in d["queries"]:
        st = "pass" if q["result"] == "unsat" else ("fail" if q["result"] == "sat" else "inconclusive")
        res.queries.append({"harness": name + ":" + q["query"][:40], "kind": "smt", "status": st, "wall_s": d["wall_s"], "clauses": 1,
                            "detail": json.dumps({k: v for k, v in q.items() if k != "query"})})
        if st == "fail":
            s, df, dr = q["model"]
            text = "Square index %d .try_offset(%d, %d) in the release profile: %s; native: %s" % (s, df, dr, q["query"], q.get("native"))
            engine.add_native_violation(res, "try_offset-release", {"kind": "e2", "args": q["model"],
                                        "replay_cmd": "%s try_offset %d %d %d" % (dump, s, df, dr)}, text)
        elif st == "inconclusive":
            res.inconclusive.append((name, "solver answered %s" % q["result"]))
        for other in ("cvc5", "z3_4.8"):
            if q.get(other) not in (None, "timeout", q["result"]):
                res.inconclusive.append((name, "solver disagreement: z3py=%s %s=%s" % (q["result"], other, q.get(other))))
    res.extra.setdefault("e2", {})[name] = {"functions": d["functions"], "probes_checked": len(d["probes"]),
                                            "mir": "nightly -Zunpretty=mir, -C overflow-checks=off"}
