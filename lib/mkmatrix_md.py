#!/usr/bin/env python3
"""Regenerates DESIGN.md section 10.5 (seeded changes and which checks catch them) from seeded/*/meta.json."""
import json, os
V = os.path.dirname(os.path.dirname(os.path.abspath(__file__)))
rows, det_q, det_t, miss = [], 0, 0, []
for sid in sorted(os.listdir(V + '/seeded')):
    mp = f'{V}/seeded/{sid}/meta.json'
    if not os.path.exists(mp):
        continue
    m = json.load(open(mp))
    d = m.get('detected_by') or {}
    line = ''
    for c, v in (d.get('results') or {}).items():
        if v.get('line'):
            line = os.path.basename(v['line'].split('replay=')[-1]).rsplit('-', 1)[0]
    checks = d.get('checks') or []
    tier = d.get('tier', 'quick')
    if checks and tier == 'quick':
        det_q += 1
    elif checks:
        det_t += 1
    else:
        miss.append(sid)
    what = (', '.join(checks) + f' ({tier}; `{line}`)') if checks else 'not detected'
    rows.append(f"| {sid} | {m['breaks_property']} | {m['needs_to_manifest']} | {what} |")
n = len(rows)
out = f"""### 10.5 Seeded changes and which checks catch them

{n} changes were written by fresh sub-agents that saw only the text of one property and a scratch worktree (three rounds; later rounds were told the
earlier round's mechanism and asked for a different one, preferably needing an interaction of several pieces, rules or steps). Each was confirmed by me in a
scratch worktree (`verify_mut.sh`: demonstration passes on the clean checkout, fails with the patch, the 30 tests + doctests pass with the patch) and is kept
under `seeded/<id>/` (patch.diff, demo.rs, notes.md, meta.json). `bin/seedmatrix` applies each patch to /repo, runs the check of the property it breaks
(`VERIF_STOP_ON_VIOLATION=1`; for the slow families restricted with `--only` to the query family named in meta.json `focus`, all of which are part of the
registered command) and reverts the patch. Result: **{det_q} of {n} detected by the quick tier and {det_t} more by the thorough tier, every one with a natively
reproduced witness**; not detected: {', '.join(miss) or 'none'} (C20a is the SAN writer, which lies in the half of C20 that is not claimed).

| seed | breaks | needs to manifest | caught by (tier; query whose witness reproduced natively) |
|---|---|---|---|
""" + "\n".join(rows) + """

What the misses and near-misses taught the machinery (all fixed before the table above was produced):
* C03a / C10a (null-move pins / hash) failed the solver query but no witness could be extracted: Kani's concrete-playback re-run does not slice the formula and ran
  out of memory on the harness that materialised all 793 keys; the null-move harness now states the hash change sparsely (side key, ep key), and playback runs get 3x the memory.
* C08a: the playback output contains one unit test per *satisfied cover* as well as per failed check; the parser took the first one (a cover), whose values do not fail
  natively. It now keeps only tests of failed checks and tries each until one reproduces.
* C15a/C15b live in `is_legal`; C15's check therefore includes `c04_vs_ref` cubes besides the wrapper harnesses. C03a / C10a live in `null_move`; C03's and C10's checks include the null-move step.
* C16b (a generator ignoring the mask for en-passant capturers) motivated `c16_silent_*`: each generator must be silent on a mask holding none of its pieces.
* C09b (builder validating en passant before the checkers are stored) is invisible to a harness whose stubbed validators answer from the builder's content; the stubs now also
  assert the state they are called on.
* C11b (a weight-4 linear dependency among castle keys) was outside the quick tier's weights 1-3; weight 4 costs under a minute and is now part of the quick tier.
* C13b (same_position ignoring *which* file is capturable) needs two boards with different capturable files; `c13_two_files` decides that in 17 min and is thorough-only,
  so the quick tier misses this one. The mutant also renamed the inner helper, which made a loop-bound rule keyed on the helper's name miss (exit 2); the rule is now keyed on `same_position`.
"""
p = V + '/DESIGN.md'
s = open(p).read()
a = s.index("### 10.5 Seeded changes")
b = s.index("### 10.6 Attempted and not within reach")
s = s[:a] + out + "\n" + s[b:]
open(p, 'w').write(s)
print(n, det_q, det_t, miss)
