#!/usr/bin/env python3-vt
"""Engine E2 worker: MIR -> SMT queries decided by z3 (python bindings, z3 5.1) and cross-checked with cvc5/z3-4.8 CLI
on exported SMT-LIB2 for a sample of queries.

  e2_worker.py c05 <types.mir> <cozy.mir> <sliders.json> <out.json> <squares: all|n> <seed> <dump-bin>
  e2_worker.py c19 <types.mir> <out.json> <dump-bin>
"""
import sys, os, json, time, random, subprocess, multiprocessing
sys.path.insert(0, os.path.join(os.path.dirname(os.path.dirname(os.path.abspath(__file__))), "mir2smt"))
import z3
import mir2smt as M

DIRS = {"rook": [(1, 0), (0, -1), (-1, 0), (0, 1)], "bishop": [(1, 1), (1, -1), (-1, -1), (-1, 1)]}


def spec_attack(slider, sq, occ):
    """The geometric definition for a concrete square: walk each ray up to and including the first occupied square."""
    res = z3.BitVecVal(0, 64)
    one = z3.BitVecVal(1, 64)
    for dx, dy in DIRS[slider]:
        x, y = sq & 7, sq >> 3
        open_ = z3.BoolVal(True)
        while True:
            x, y = x + dx, y + dy
            if not (0 <= x < 8 and 0 <= y < 8):
                break
            t = y * 8 + x
            res = res | z3.If(open_, one << t, z3.BitVecVal(0, 64))
            open_ = z3.And(open_, (z3.LShR(occ, t) & one) == 0)
    return res


def spec_attack_py(slider, sq, occ):
    res = 0
    for dx, dy in DIRS[slider]:
        x, y = sq & 7, sq >> 3
        while True:
            x, y = x + dx, y + dy
            if not (0 <= x < 8 and 0 <= y < 8):
                break
            t = y * 8 + x
            res |= 1 << t
            if (occ >> t) & 1:
                break
    return res


class TableSlice:
    """SLIDING_MOVES read with a symbolic index: the read is modelled on the slice [lo, hi) only, and the side
    obligation lo <= idx < hi is recorded and discharged by its own query."""
    def __init__(self, table, lo, hi):
        self.table, self.lo, self.hi = table, lo, hi
        self.obligations = []

    def read(self, idx):
        self.obligations.append(z3.And(z3.UGE(idx.t, self.lo), z3.ULT(idx.t, self.hi)))
        off = idx.t - z3.BitVecVal(self.lo, 64)
        vals = self.table[self.lo:self.hi]

        def tree(lo, hi, bit):
            if hi - lo == 1:
                return z3.BitVecVal(vals[lo] if lo < len(vals) else 0, 64)
            mid = (lo + hi) // 2
            return z3.If(z3.Extract(bit, bit, off) == 1, tree(mid, hi, bit - 1), tree(lo, mid, bit - 1))
        n = 1
        while n < len(vals):
            n *= 2
        vals = vals + [0] * (n - len(vals))
        nbits = max(n.bit_length() - 1, 1)
        return M.Int(tree(0, n, nbits - 1) if n > 1 else z3.BitVecVal(vals[0], 64), 64, False)


def patch_index_reads():
    """teach the executor to read TableSlice values"""
    orig = M.Exec.read_place

    def read_place(self, s, env):
        import re
        m = re.fullmatch(r"\(\*(_\d+)\)\[(_\d+)\]", s.strip())
        if m:
            base = env.get(int(m.group(1)[1:]))
            if isinstance(base, TableSlice):
                return base.read(env[int(m.group(2)[1:])])
        return orig(self, s, env)
    M.Exec.read_place = read_place


_W = {}


def init_worker(types_mir, cozy_mir, sliders_json, root):
    patch_index_reads()
    fns = M.parse_dump(open(types_mir).read())
    for k, v in M.parse_dump(open(cozy_mir).read()).items():
        fns.setdefault(k, v)
    _W["fns"] = fns
    _W["enums"] = M.enums_from_source(root)
    _W["sl"] = json.load(open(sliders_json))


def make_ctx(sq, slider, table_slice):
    sl = _W["sl"]
    pext = sl["pext"]

    def entries(name):
        def build():
            out = []
            for (a, b, c, d) in sl["entries"][name]:
                if pext:
                    # PextEntry { offset: u32, mask: BitBoard }
                    out.append(M.Agg([M.mk_int(c, "u32"), M.Agg([M.mk_int(a, "u64")])]))
                else:
                    # BlackMagicEntry { neg_mask: BitBoard, magic: u64, offset: u32 }
                    out.append(M.Agg([M.Agg([M.mk_int(a, "u64")]), M.mk_int(b, "u64"), M.mk_int(c, "u32")]))
            return M.Arr(out)
        return build
    consts = {
        "square::Square::NUM": lambda: M.mk_int(64, "usize"),
        "Square::NUM": lambda: M.mk_int(64, "usize"),
        "sliders::magic::ROOK_MAGICS": entries("rook"),
        "sliders::magic::BISHOP_MAGICS": entries("bishop"),
        "sliders::magic::ROOK_INDEX_BITS": lambda: M.mk_int(sl["entries"]["rook"][0][3], "usize"),
        "sliders::magic::BISHOP_INDEX_BITS": lambda: M.mk_int(sl["entries"]["bishop"][0][3], "usize"),
        "moves::SLIDING_MOVES": lambda: table_slice,
    }
    if pext:
        rook, bishop = entries("rook"), entries("bishop")
        consts["sliders::pext::INDEX_DATA"] = lambda: M.Agg([rook(), bishop(), M.mk_int(len(sl["table"]), "usize")])
    intr = {r"_pext_u64$": M.pext_model}
    return M.Ctx(_W["fns"], _W["enums"], consts, intr)


def slice_bounds(slider, sq):
    sl = _W["sl"]
    a, b, c, d = sl["entries"][slider][sq]
    if sl["pext"]:
        return c, c + (1 << bin(a).count("1"))
    return c, c + (1 << d)


def one_square(job):
    slider, sq, export = job
    sl = _W["sl"]
    t0 = time.time()
    lo, hi = slice_bounds(slider, sq)
    ts = TableSlice(sl["table"], lo, hi)
    ctx = make_ctx(sq, slider, ts)
    occ = z3.BitVec("occ", 64)
    try:
        val, panics = M.execute(ctx, "moves::get_%s_moves" % slider,
                                [M.Enum("square::Square", z3.BitVecVal(sq, 64)), M.Agg([M.Int(occ, 64, False)])])
    except M.Unsupported as e:
        return {"slider": slider, "sq": sq, "status": "not-translated", "reason": str(e)}
    got = val.fields[0].t
    spec = spec_attack(slider, sq, occ)
    out = {"slider": slider, "sq": sq, "functions": list(dict.fromkeys(ctx.calls)), "slice": [lo, hi]}
    # Q1: the index stays inside the table slice and no panic is reachable
    s = z3.Solver()
    bad = [z3.Not(o) for o in ts.obligations] + [c for c, _, _ in panics]
    s.add(z3.Or(bad))
    r1 = s.check()
    out["q_index"] = str(r1)
    if r1 == z3.sat:
        out["model"] = s.model()[occ].as_long() if s.model()[occ] is not None else 0
        out["status"] = "sat"
        out["why"] = "index leaves its table slice or a panic is reachable"
        out["wall_s"] = round(time.time() - t0, 3)
        return out
    # Q2: the value read equals the geometric definition
    s2 = z3.Solver()
    s2.add(got != spec)
    if export:
        out["smt2"] = s2.to_smt2()
    r2 = s2.check()
    out["q_value"] = str(r2)
    if r2 == z3.sat:
        out["model"] = s2.model()[occ].as_long() if s2.model()[occ] is not None else 0
        out["why"] = "table value differs from the ray-walk definition"
    out["status"] = "unsat" if (r1 == z3.unsat and r2 == z3.unsat) else ("sat" if r2 == z3.sat else "unknown")
    # translator validation: evaluate the index formula on concrete occupancies (compared natively by the caller)
    rnd = random.Random(sq * 7 + (1 if slider == "rook" else 0))
    probes = []
    for _ in range(3):
        o = rnd.getrandbits(64) & rnd.getrandbits(64)
        v = z3.simplify(z3.substitute(got, (occ, z3.BitVecVal(o, 64))))
        probes.append([o, v.as_long() if z3.is_bv_value(v) else None])
    out["probes"] = probes
    out["wall_s"] = round(time.time() - t0, 3)
    return out


def run_cli(solver_cmd, smt2, timeout=120):
    try:
        r = subprocess.run(solver_cmd, input=smt2, capture_output=True, text=True, timeout=timeout)
    except subprocess.TimeoutExpired:
        return "timeout"
    out = r.stdout.strip().splitlines()
    if any("(error" in l for l in out):
        return "error"
    return out[0] if out else "noanswer"


def main_c05(argv):
    types_mir, cozy_mir, sliders_json, outp, squares, seed, dump_bin = argv[:7]
    root = "/repo"
    init_worker(types_mir, cozy_mir, sliders_json, root)
    allsq = [(s, q) for s in ("rook", "bishop") for q in range(64)]
    if squares != "all":
        rnd = random.Random(int(seed))
        rnd.shuffle(allsq)
        allsq = allsq[:int(squares)]
    export = {("bishop", 27), ("bishop", 0), ("rook", 0)} & set(allsq)
    jobs = [(s, q, (s, q) in export) for s, q in allsq]
    t0 = time.time()
    with multiprocessing.Pool(16, initializer=init_worker, initargs=(types_mir, cozy_mir, sliders_json, root)) as pool:
        rs = pool.map(one_square, jobs, chunksize=1)
    # cross-solver diff on the exported queries; native replay of models; native check of translator probes
    cross = []
    for r in rs:
        smt = r.pop("smt2", None)
        if smt:
            q = smt + "\n(check-sat)\n" if "(check-sat)" not in smt else smt
            a = run_cli(["cvc5", "--lang", "smt2"], q, 60 if r["slider"] == "bishop" else 5)
            b = run_cli(["/usr/bin/z3", "-in"], q, 60)
            cross.append({"slider": r["slider"], "sq": r["sq"], "z3py": r.get("q_value"), "cvc5": a, "z3_4.8": b})
        for pr in r.get("probes", []):
            o, v = pr
            nat = subprocess.run([dump_bin, "eval", r["slider"], str(r["sq"]), str(o)], capture_output=True, text=True).stdout.split()
            pr.append(int(nat[0]) if nat else None)
        if r.get("status") == "sat":
            o = r["model"]
            nat = subprocess.run([dump_bin, "eval", r["slider"], str(r["sq"]), str(o)], capture_output=True, text=True)
            natv = nat.stdout.split()
            r["native"] = {"value": int(natv[0]) if natv else None, "index": int(natv[1]) if len(natv) > 1 else None,
                           "rc": nat.returncode, "stderr": nat.stderr[-200:], "spec": spec_attack_py(r["slider"], r["sq"], o)}
    json.dump({"results": rs, "cross": cross, "wall_s": round(time.time() - t0, 1), "pext": _W["sl"]["pext"]}, open(outp, "w"))


def main_c19(argv):
    types_mir, outp, dump_bin = argv[:3]
    fns = M.parse_dump(open(types_mir).read())
    enums = M.enums_from_source("/repo")
    ctx = M.Ctx(fns, enums, {"square::Square::NUM": lambda: M.mk_int(64, "usize")})
    s, df, dr = z3.BitVec("s", 64), z3.BitVec("df", 8), z3.BitVec("dr", 8)
    t0 = time.time()
    res = {}
    try:
        name = [n for n in fns if n.endswith("::try_offset")][0]
        val, panics = M.execute(ctx, name, [M.Enum("square::Square", s), M.Int(df, 8, True), M.Int(dr, 8, True)])
    except (M.Unsupported, IndexError) as e:
        json.dump({"status": "not-translated", "reason": str(e)}, open(outp, "w"))
        return
    nf = z3.SignExt(8, z3.Extract(7, 0, s & 7)) + z3.SignExt(8, df)
    nr = z3.SignExt(8, z3.Extract(7, 0, z3.LShR(s, 3))) + z3.SignExt(8, dr)
    inside = z3.And(nf >= 0, nf < 8, nr >= 0, nr < 8)
    pre = z3.ULT(s, 64)
    sol = z3.Solver()
    sol.add(pre)
    queries = []
    # Q1 no panic
    sol.push()
    sol.add(z3.Or([c for c, _, _ in panics]) if panics else z3.BoolVal(False))
    r = sol.check()
    q = {"query": "a panic is reachable in try_offset (release MIR)", "result": str(r), "panic_sites": len(panics)}
    if r == z3.sat:
        m = sol.model()
        q["model"] = [m.eval(s, True).as_long(), m.eval(df, True).as_signed_long(), m.eval(dr, True).as_signed_long()]
    queries.append(q)
    sol.pop()
    # Q2 value
    sol.push()
    some = val.var == 1
    payload = val.payload["Some"].fields[0]
    pt = payload.d if isinstance(payload, M.Enum) else payload.t
    sol.add(z3.Or(some != inside, z3.And(inside, pt != z3.ZeroExt(48, nr * 8 + nf))))
    smt2 = sol.to_smt2()
    r = sol.check()
    q = {"query": "try_offset result differs from coordinate arithmetic (release MIR)", "result": str(r)}
    if r == z3.sat:
        m = sol.model()
        q["model"] = [m.eval(s, True).as_long(), m.eval(df, True).as_signed_long(), m.eval(dr, True).as_signed_long()]
    q["cvc5"] = run_cli(["cvc5", "--lang", "smt2"], smt2)
    q["z3_4.8"] = run_cli(["/usr/bin/z3", "-in"], smt2)
    queries.append(q)
    sol.pop()
    # translator validation: concrete probes against the native release build
    probes = []
    rnd = random.Random(1)
    for _ in range(40):
        cs, cdf, cdr = rnd.randrange(64), rnd.randrange(-128, 128), rnd.randrange(-128, 128)
        sub = [(s, z3.BitVecVal(cs, 64)), (df, z3.BitVecVal(cdf, 8)), (dr, z3.BitVecVal(cdr, 8))]
        var = z3.simplify(z3.substitute(val.var, *sub))
        pv = z3.simplify(z3.substitute(pt, *sub))
        model = "none" if var.as_long() == 0 else str(pv.as_long())
        nat = subprocess.run([dump_bin, "try_offset", str(cs), str(cdf), str(cdr)], capture_output=True, text=True).stdout.strip()
        probes.append([cs, cdf, cdr, model, nat])
    for q in queries:
        if q.get("model"):
            cs, cdf, cdr = q["model"]
            nat = subprocess.run([dump_bin, "try_offset", str(cs), str(cdf), str(cdr)], capture_output=True, text=True)
            q["native"] = {"stdout": nat.stdout.strip(), "rc": nat.returncode, "stderr": nat.stderr.strip()[-200:]}
    json.dump({"status": "ok", "queries": queries, "probes": probes, "functions": list(dict.fromkeys(ctx.calls)),
               "wall_s": round(time.time() - t0, 2)}, open(outp, "w"))


if __name__ == "__main__":
    if sys.argv[1] == "c05":
        main_c05(sys.argv[2:])
    else:
        main_c19(sys.argv[2:])
