"""Per-property plans: which solver queries each tier runs, with bounds and reasons."""
import os, sys, json, subprocess
import engine, kani
from kani import Query

RULE = ("each evaluation is one solver query over the compiled code of /repo (a Kani proof harness = a family of "
        "verification conditions decided by CBMC+CaDiCaL, or one SMT query decided by z3/cvc5); a query counts as "
        "distinct and non-trivial when it has its own harness/formula and the solver was given a non-empty clause set")


def filt(qs, only):
    if not only:
        return qs
    return [q for q in qs if any(o in q.harness for o in only)]


def H(mod, name, **kw):
    return Query("%s::%s" % (mod, name), **kw)


# ---------------------------------------------------------------------------- C17
def plan_c17(res, tier, seed, only):
    res.functions = ["PieceMoves::len", "PieceMoves::is_empty", "PieceMoves::has", "PieceMoves::into_iter",
                     "PieceMovesIter::next", "PieceMovesIter::len", "PieceMovesIter::size_hint"]
    res.bounds = {"piece": "all 6", "origin": "all 64", "destinations": "all 2^64 sets", "queried move": "all 64*64*7",
                  "iteration": "one inductive step from every consistent iterator state + base case; full iteration "
                               "through the public API for sets of <= 3 destinations (unwind 14, asserted)"}
    res.assumptions = ["iterator-state invariant: promotion <= 3 and promotion > 0 only while the lowest destination is a pawn "
                       "promotion square (shown inductive by c17_iter_step, established by c17_iter_base)",
                       "hook PieceMovesIter::verif_from_raw/verif_raw only exposes the two private fields"]
    qs = [H("c17", n, timeout=600, mem_gb=6) for n in
          ["c17_len_empty", "c17_has", "c17_iter_step", "c17_iter_base", "c17_iter_full3"]]
    engine.run_plan(res, filt(qs, only), workers=5)
    return RULE


# ---------------------------------------------------------------------------- C18
def plan_c18(res, tier, seed, only):
    res.functions = ["BitBoard ops (BitAnd/BitOr/BitXor/Sub/Not + assigning forms)", "has", "is_subset", "is_superset",
                     "is_disjoint", "is_empty", "len", "next_square", "BitBoardIter::next/len/size_hint", "FromIterator",
                     "iter_subsets", "BitBoardSubsetIter::next", "flip_ranks", "flip_files", "File/Rank/Square::bitboard",
                     "EDGES/CORNERS/DARK_SQUARES/LIGHT_SQUARES", "File::adjacent"]
    res.bounds = {"bitboards": "all 2^64 (pairs for binary operators)", "squares": "all 64",
                  "iteration": "one inductive step from every state; full iteration for <= 8 members (unwind 10, asserted)",
                  "subset iteration": "one inductive step from every (set, subset) with subset within set, minimality of the "
                                      "successor against a universally quantified word; full iteration for sets <= 3 squares",
                  "collect": "<= 4 squares"}
    res.assumptions = ["hooks BitBoardIter::verif_raw, BitBoardSubsetIter::verif_from_raw/verif_raw only expose private fields"]
    names = ["c18_ops", "c18_preds", "c18_iter_step", "c18_iter_full8", "c18_collect", "c18_subsets_step",
             "c18_subsets_full3", "c18_flips", "c18_consts"]
    qs = [H("c18", n, timeout=900, mem_gb=6) for n in names]
    engine.run_plan(res, filt(qs, only), workers=9)
    return RULE


# ---------------------------------------------------------------------------- C19
def plan_c19(res, tier, seed, only):
    res.functions = ["Square::new/file/rank/flip_file/flip_rank/relative_to/offset/try_offset", "File::flip", "Rank::flip",
                     "Rank::relative_to", "Color::not", "try_index (all enums)", "Display+FromStr of Square/File/Rank/Piece/Color/Move"]
    res.bounds = {"squares x offsets": "all 64 x 256 x 256", "strings": "Move <= 6 bytes, Square <= 3, one-character types <= 2 "
                  "(valid UTF-8 only; longer strings outside the claim)", "values": "all values of every type"}
    res.assumptions = ["Kani models the dev profile (overflow checks on); the release profile of try_offset is decided by the "
                       "MIR->SMT query (c19 mir)"]
    names = ["c19_coords", "c19_try_offset", "c19_offset_ok", "c19_fmt_parse_small", "c19_fmt_parse_move", "c19_parse_small",
             "c19_parse_square", "c19_parse_move"]
    qs = [H("c19", n, timeout=900, mem_gb=8) for n in names]
    engine.run_plan(res, filt(qs, only), workers=8)
    return RULE


PLANS = {
    "C17": plan_c17,
    "C18": plan_c18,
    "C19": plan_c19,
}


def replay(prop, path):
    d = json.load(open(path))
    if d.get("kind", "kani") == "kani":
        nat = engine.native_replay(d["harness"].split("::")[-1], d["vals"])
        bad = False
        for prof, (rc, out) in nat.items():
            print("[%s] rc=%d\n%s" % (prof, rc, out))
            bad |= rc == 1
        if bad:
            print("VIOLATION property=%s replay=%s" % (prop, path))
            return 1
        return 0
    cmd = d.get("replay_cmd")
    if cmd:
        r = subprocess.run(cmd, shell=True, cwd=engine.VERIF)
        if r.returncode == 1:
            print("VIOLATION property=%s replay=%s" % (prop, path))
        return r.returncode
    return 2
