"""Per-property plans: which solver queries each tier runs, with bounds and reasons."""
import os, sys, json, subprocess
import engine, kani
from kani import Query

RULE = ("each evaluation is one solver query over the compiled code of /repo (a Kani proof harness = a family of "
        "verification conditions decided by CBMC+CaDiCaL, or one SMT query decided by z3/cvc5); a query counts as "
        "distinct and non-trivial when it has its own harness/formula and the solver was given a non-empty clause set")


def filt(qs, only):
    if not only:
        return qs
    return [q for q in qs if any(o in q.harness for o in only)]


def H(mod, name, **kw):
    return Query("%s::%s" % (mod, name), **kw)


# ---------------------------------------------------------------------------- C17
def plan_c17(res, tier, seed, only):
    res.functions = ["PieceMoves::len", "PieceMoves::is_empty", "PieceMoves::has", "PieceMoves::into_iter",
                     "PieceMovesIter::next", "PieceMovesIter::len", "PieceMovesIter::size_hint"]
    res.bounds = {"piece": "all 6", "origin": "all 64", "destinations": "all 2^64 sets", "queried move": "all 64*64*7",
                  "iteration": "one inductive step from every consistent iterator state + base case; full iteration "
                               "through the public API for sets of <= 3 destinations (unwind 14, asserted)"}
    res.assumptions = ["iterator-state invariant: promotion <= 3 and promotion > 0 only while the lowest destination is a pawn "
                       "promotion square (shown inductive by c17_iter_step, established by c17_iter_base)",
                       "hook PieceMovesIter::verif_from_raw/verif_raw only exposes the two private fields"]
    qs = [H("c17", n, timeout=600, mem_gb=6) for n in
          ["c17_len_empty", "c17_has", "c17_iter_step", "c17_iter_base", "c17_iter_full3"]]
    engine.run_plan(res, filt(qs, only), workers=5)
    return RULE


# ---------------------------------------------------------------------------- C18
def plan_c18(res, tier, seed, only):
    res.functions = ["BitBoard ops (BitAnd/BitOr/BitXor/Sub/Not + assigning forms)", "has", "is_subset", "is_superset",
                     "is_disjoint", "is_empty", "len", "next_square", "BitBoardIter::next/len/size_hint", "FromIterator",
                     "iter_subsets", "BitBoardSubsetIter::next", "flip_ranks", "flip_files", "File/Rank/Square::bitboard",
                     "EDGES/CORNERS/DARK_SQUARES/LIGHT_SQUARES", "File::adjacent"]
    res.bounds = {"bitboards": "all 2^64 (pairs for binary operators)", "squares": "all 64",
                  "iteration": "one inductive step from every state; full iteration for <= 8 members (unwind 10, asserted)",
                  "subset iteration": "one inductive step from every (set, subset) with subset within set, minimality of the "
                                      "successor against a universally quantified word; full iteration for sets <= 3 squares",
                  "collect": "<= 4 squares"}
    res.assumptions = ["hooks BitBoardIter::verif_raw, BitBoardSubsetIter::verif_from_raw/verif_raw only expose private fields"]
    names = ["c18_ops", "c18_preds", "c18_iter_step", "c18_iter_full8", "c18_collect", "c18_subsets_step",
             "c18_subsets_full3", "c18_flips", "c18_consts"]
    qs = [H("c18", n, timeout=900, mem_gb=6) for n in names]
    engine.run_plan(res, filt(qs, only), workers=9)
    return RULE


# ---------------------------------------------------------------------------- C19
def plan_c19(res, tier, seed, only):
    res.functions = ["Square::new/file/rank/flip_file/flip_rank/relative_to/offset/try_offset", "File::flip", "Rank::flip",
                     "Rank::relative_to", "Color::not", "try_index (all enums)", "Display+FromStr of Square/File/Rank/Piece/Color/Move"]
    res.bounds = {"squares x offsets": "all 64 x 256 x 256", "strings": "Move <= 6 bytes, Square <= 3, one-character types <= 2 "
                  "(valid UTF-8 only; longer strings outside the claim)", "values": "all values of every type"}
    res.assumptions = ["Kani models the dev profile (overflow checks on); the release profile of try_offset is decided by the "
                       "MIR->SMT query (c19 mir)"]
    names = ["c19_coords", "c19_try_offset", "c19_offset_ok", "c19_fmt_parse_small", "c19_fmt_parse_move", "c19_parse_small",
             "c19_parse_square", "c19_parse_move"]
    qs = [H("c19", n, timeout=900, mem_gb=8) for n in names]
    engine.run_plan(res, filt(qs, only), workers=8)
    import e2
    e2.run_c19(res)
    return RULE


PLANS = {
    "C17": plan_c17,
    "C18": plan_c18,
    "C19": plan_c19,
}


def replay(prop, path):
    d = json.load(open(path))
    if d.get("kind", "kani") == "kani":
        nat = engine.native_replay(d["harness"].split("::")[-1], d["vals"])
        bad = False
        for prof, (rc, out) in nat.items():
            print("[%s] rc=%d\n%s" % (prof, rc, out))
            bad |= rc == 1
        if bad:
            print("VIOLATION property=%s replay=%s" % (prop, path))
            return 1
        return 0
    cmd = d.get("replay_cmd")
    if cmd:
        r = subprocess.run(cmd, shell=True, cwd=engine.VERIF)
        if r.returncode == 1:
            print("VIOLATION property=%s replay=%s" % (prop, path))
        return r.returncode
    return 2


# ---------------------------------------------------------------------------- board-level rules
HARNESS_CODE = (r"^src/(refm|sym|brd|stubs|util|glue|zob|full|san|c\d\d)\.rs:", 70, "harness/reference code: constant trip counts (<= 64), loops end on their own")


def board_rules(a=16, full_n=None):
    """Loop bounds for board-level harnesses with a single-square mask. Every bound is derived from the
    code and checked by unwinding assertions."""
    one = 2 if full_n is None else full_n + 1
    return [
        HARNESS_CODE,
        (r"core/src/array/", 9, "array::map over <= 8 elements (raw board constructor hook)"),
        (r"add_pawn_legals", 2 if full_n is None else full_n + 1, "single-origin mask: at most one own pawn is in the mask, so each of the three pawn loops (free pawns, pinned pawns, en-passant capturers) runs <= 1 time"),
        (r"add_knight_legals|add_slider_legals", one, "single-origin mask: <= 1 piece"),
        (r"add_king_legals", 9, "king has <= 8 neighbours"),
        (r"can_castle", 7, "king path (between + destination) has <= 6 squares"),
        (r"piece_on", 7, "6 piece kinds"),
        (r"play_unchecked|null_move|calculate_checkers_and_pins", a + 1, "sliders aligned with a king: bounded by the assumption of the harness (<= %d)" % a),
        (r"same_position", 3, "the loop over the (<= 2) pawn-attack squares of the en-passant square inside same_position"),
        (r"board_is_valid", 7, "6 piece kinds / 2 colours"),
        (r"castle_rights_are_valid", 3, "2 colours"),
        (r"en_passant_is_valid", 4, "<= 2 checkers accepted (+1)"),
        (r"memcmp|library/core/src/(str|fmt|slice|char|num|iter)/", 8, "text of at most 6 bytes / arrays of at most 6 words"),
    ]

KINDS = ["pawn", "knight", "bishop", "rook", "queen", "king", "none"]
BOARD_ASSUME = ["boards are raw symbolic fields constrained by refm::accepts (equal to the real acceptance set by the C06 lemma, "
                "within that lemma's bound); checkers/pinned of the pre-state are the reference values (tied to the real "
                "constructor by C03/C06 fresh_equals_ref)",
                "table lookups get_rook_moves/get_bishop_moves/get_*_rays/get_between_rays/get_line_rays/get_knight_moves/"
                "get_king_moves/get_pawn_attacks are replaced by formula stubs proved equal to them for every argument in C05"]


def oracle_validation(res):
    """Native validation of the reference model against the repository's own test positions (oracle check, not the property)."""
    import re, time
    t0 = time.time()
    ok, d, err = engine.build_native("release", bins=("replay", "validate"))
    if not ok:
        res.inconclusive.append(("oracle-validation", "native build failed: " + err[-300:]))
        return
    fens = set()
    for f in ["cozy-chess/src/board/movegen/tests.rs", "cozy-chess/src/board/mod.rs", "cozy-chess/src/util/tests.rs"]:
        try:
            txt = open(os.path.join("/repo", f)).read()
        except OSError:
            continue
        fens |= set(re.findall(r'"([^"]+ [wb] [A-Za-z-]+ [a-h0-9-]+ [0-9]+ [0-9]+)"', txt))
    try:
        fens |= set(open("/repo/cozy-chess/src/board/test_data/valid.sfens").read().splitlines()[:200])
    except OSError:
        pass
    r = subprocess.run([os.path.join(d, "validate"), "1"], input="\n".join(sorted(fens)), capture_output=True, text=True)
    last = (r.stdout.strip().splitlines() or ["no output"])[-1]
    res.extra["oracle_validation"] = {"result": last, "wall_s": round(time.time() - t0, 1),
                                      "what": "reference model vs real code on the repository's test positions and their depth-2 trees (validates the oracle; decides nothing about the property)"}
    if r.returncode != 0:
        # the oracle and the real code disagree on a concrete position: a harness would find the same, so run on, but say so
        sys.stderr.write("oracle validation disagreement:\n" + r.stdout[-1500:] + "\n")
        res.extra["oracle_validation"]["disagreements"] = r.stdout.strip().splitlines()[:10]


def cube_queries(prefix, kinds, cks, timeout, mem, a=16, **kw):
    qs = []
    for k in kinds:
        for c in cks:
            qs.append(Query("brd::%s_%s_c%d" % (prefix, k, c), stubbing=True, rules=board_rules(a), default_unwind=2,
                            timeout=timeout, mem_gb=mem, **kw))
    return qs


def gen_queries(prefix, kinds, cks, timeout, mem=None, a=16):
    """per-generator harnesses (reached through the hook verif_add_legals)"""
    qs = []
    two = prefix.endswith("gen2") or prefix.endswith("gen3")
    nmask = 3 if prefix.endswith("gen3") else 2
    for k in kinds:
        if two and k == "king":
            continue
        kcks = list(cks)
        if k == "pawn" and 0 in kcks:
            # the not-in-check pawn instance is the largest query: split into "no ep file" (3) and "ep file set" (4)
            kcks = [c for c in kcks if c != 0] + [3, 4]
        for c in kcks:
            if c == 2 and k != "king":
                continue  # in double check the dispatcher calls the king generator only (c16_dispatch)
            m = mem or 3  # measured peak RSS <= 0.5 GB
            qs.append(Query("brd::%s_%s_c%d" % (prefix, k, c), stubbing=True, rules=board_rules(a, full_n=nmask if two else None), default_unwind=2, timeout=timeout, mem_gb=m))
    return qs


GEN3 = KINDS[:5]  # kinds whose generator loop is also run with three origins in the mask (C16: both tiers; C01: thorough, its quick tier is near the deadline)

GEN_NOTE = ("quick tier decides generate_moves_for compositionally: dispatch layer with the generators stubbed (every board value, mask, abort point) "
            "+ each real generator through the hook on a single-origin mask holding one of its pieces + each generator silent on masks holding none "
            "of its pieces + 'no non-king move is legal in double check' (reference lemma); the thorough tier also runs the public entry point "
            "on single-origin masks (12 GB per cube)")


# ---------------------------------------------------------------------------- C04
def plan_c04(res, tier, seed, only):
    res.functions = ["Board::is_legal", "Board::king_is_legal", "Board::can_castle", "Board::king_safe_on", "Board::target_squares",
                     "Board::add_pawn_legals (as used by is_legal)", "Board::piece_on", "Board::generate_moves_for (vs_gen)"]
    res.bounds = {"boards": "every accepted board, no piece-count bound", "moves": "all 64*64*7 move values",
                  "cubes": "origin kind (6 kinds + 'no own piece') x checkers (0, 1, >=2): 21 cubes partition the input space",
                  "loops": "per-loop bounds derived from the code, unwinding assertions on"}
    res.assumptions = list(BOARD_ASSUME)
    oracle_validation(res)
    cap = 600 if tier == "quick" else 2700
    qs = cube_queries("c04_vs_ref", KINDS, [0, 1, 2], cap, 8)
    if tier == "thorough":
        qs += cube_queries("c04_vs_gen", KINDS, [0, 1, 2], cap, 10)
    else:
        res.notrun.append("c04_vs_gen (is_legal vs generation without oracle): thorough tier")
    engine.run_plan(res, filt(qs, only), workers=12)
    return RULE


PLANS["C04"] = plan_c04


def native_bin(res, name):
    ok, d, err = engine.build_native("release", bins=("replay", "validate", "dump"))
    if not ok:
        res.inconclusive.append((name, "native build failed: " + err[-300:]))
        return None
    return os.path.join(d, name)


# ---------------------------------------------------------------------------- C11
def plan_c11(res, tier, seed, only):
    import time
    res.functions = ["ZobristBoard::xor_square", "ZobristBoard::set_castle_right", "ZobristBoard::set_en_passant",
                     "ZobristBoard::toggle_side_to_move", "ZobristBoard::hash_without_ep", "ZOBRIST (793 const-evaluated keys)"]
    maxw = 4  # weight 4 is about 12.5k cubes of ~40 ms: cheap enough for the quick tier
    res.bounds = {"writers": "every raw state and every argument (Kani)", "keys": "all 793 keys (768 piece, 16 castle, 8 ep, side)",
                  "weights": "XORs of 1..%d distinct keys, complete (cube-and-conquer over low-6-bit classes)" % maxw}
    res.assumptions = ["keys are obtained behaviourally through the writer hooks on an empty board",
                       "castle keys that coincide for the two wings of one (colour, file) are one feature key (the property counts 2*8 castle keys); any other coincidence is a collision"]
    qs = [H("zob", n, timeout=900, mem_gb=8) for n in ["c11_linearity", "c10_without_ep"]]
    engine.run_plan(res, filt(qs, only), workers=3)
    dump = native_bin(res, "dump")
    if dump:
        work = os.path.join(engine.WORK, "c11")
        os.makedirs(work, exist_ok=True)
        kp, op = os.path.join(work, "keys.json"), os.path.join(work, "out.json")
        open(kp, "w").write(subprocess.run([dump, "keys"], capture_output=True, text=True).stdout)
        t0 = time.time()
        r = subprocess.run(["python3-vt", os.path.join(engine.VERIF, "lib", "zobrist.py"), kp, str(maxw), op, "16"],
                           capture_output=True, text=True)
        if r.returncode != 0:
            res.inconclusive.append(("zobrist-z3", "driver failed: " + r.stderr[-300:]))
        else:
            d = json.load(open(op))
            for w in d["results"]:
                q = {"harness": "z3:weight-%d" % w["weight"], "kind": "smt", "status": "pass" if w["result"] == "unsat" else "fail",
                     "solver_s": w.get("solver_s"), "wall_s": w.get("wall_s", w.get("solver_s")),
                     "detail": "%d cube(s), all unsat" % w["cubes"] if w["result"] == "unsat" else str(w)}
                if w["result"] == "unknown":
                    q["status"] = "inconclusive"
                    res.inconclusive.append((q["harness"], "z3 returned unknown on %d cubes" % w.get("unknown", 0)))
                res.queries.append(q)
            res.extra["zobrist"] = {"n_keys": d["n_keys"], "cube_bits": d["cube_bits"], "mitm_cross_check": d["mitm_cross_check"],
                                    "cubes_per_weight": {str(w["weight"]): w["cubes"] for w in d["results"]}}
            for c in d["collisions"]:
                text = "XOR of %d distinct feature keys is zero: %s" % (c["weight"], ", ".join(c["features"]))
                engine.add_native_violation(res, "zobrist-w%d" % c["weight"], {"kind": "zobrist", "indices": c["indices"],
                                            "features": c["features"], "keys": c["keys"]}, text)
            if d["models_not_confirmed"]:
                res.inconclusive.append(("zobrist-z3", "solver model did not reproduce on the dumped keys"))
            if d["mitm_cross_check"]["collisions_found"] and not d["collisions"]:
                res.inconclusive.append(("zobrist-z3", "cross-check found a collision the solver queries missed: encoding suspect"))
    return RULE


PLANS["C11"] = plan_c11


# ---------------------------------------------------------------------------- C05 (Kani part; SMT part added by e2)
def plan_c05(res, tier, seed, only):
    res.functions = ["get_knight_moves", "get_king_moves", "get_pawn_attacks", "get_pawn_quiets", "get_rook_rays", "get_bishop_rays",
                     "get_between_rays", "get_line_rays", "get_rook_moves_const", "get_bishop_moves_const", "get_slider_moves",
                     "get_rook_relevant_blockers", "get_bishop_relevant_blockers", "get_magic_index/get_rook_moves_index/"
                     "get_bishop_moves_index", "get_rook_moves/get_bishop_moves + SLIDING_MOVES (SMT)"]
    res.bounds = {"squares": "all 64 (pairs: all 64x64)", "occupancies": "all 2^64", "colours": "both"}
    res.assumptions = ["the reference fills are themselves proved equal to a naive ray walk (c05_ks_vs_walk)"]
    names = ["c05_leapers", "c05_pawn_quiets", "c05_rays_between_line", "c05_ks_vs_walk", "c05_const_rook", "c05_const_bishop",
             "c05_relevant_blockers", "c05_magic_bridge_rook", "c05_magic_bridge_bishop"]
    qs = [H("c05", n, timeout=1200, mem_gb=10) for n in names]
    engine.run_plan(res, filt(qs, only), workers=9)
    import e2
    e2.run_c05(res, tier, seed)
    try:
        has_bmi2 = " bmi2" in open("/proc/cpuinfo").read()
    except OSError:
        has_bmi2 = False
    if has_bmi2:
        e2.run_c05(res, tier, seed, pext=True)
    else:
        res.notrun.append("PEXT back end: this CPU has no BMI2, so the pext build cannot be produced or replayed here")
    return RULE


PLANS["C05"] = plan_c05


# ---------------------------------------------------------------------------- C01
def plan_c01(res, tier, seed, only):
    res.functions = ["Board::generate_moves_for", "Board::add_all_legals", "add_pawn_legals", "add_knight_legals", "add_slider_legals<Bishop|Rook|Queen>",
                     "add_king_legals", "can_castle", "king_safe_on", "target_squares"]
    res.bounds = {"boards": "every accepted board, no piece-count bound", "mask": "every single-origin mask (64 squares); the FULL mask is the union "
                  "of origins: composition shown structurally by C16 (dispatch + abort with generators stubbed)",
                  "queried move": "all 64*64*7 values", "cubes": "origin kind (6 + none) x checkers (0, 1, >=2)"}
    res.assumptions = list(BOARD_ASSUME) + ["batch membership uses the enumeration model proved for PieceMoves in C17",
                                            "both slider back ends: the stubs are proved equal to each back end's lookups in C05"]
    oracle_validation(res)
    cap = 900 if tier == "quick" else 2700
    res.assumptions.append(GEN_NOTE)
    base = [Query("c16::c16_dispatch", stubbing=True, timeout=cap, mem_gb=8),
            Query("brd::c01_double_check_ref", stubbing=True, rules=board_rules(), default_unwind=2, timeout=cap, mem_gb=6)]
    qs = base + gen_queries("c01_gen", KINDS[:6], [0, 1, 2], cap) + gen_queries("c16_silent", KINDS[:6], [0, 1, 2], cap)
    # two origins of the generator's kind in the mask: the loops' second iteration behaves like the first
    qs += gen_queries("c01_gen2", KINDS[:5], [0, 1], cap)
    if tier == "thorough":
        qs += gen_queries("c01_gen3", GEN3, [0, 1], cap)  # three origins: the third iteration as well (quick tier: run under C16)
    else:
        res.notrun.append("c01_gen3 (three origins of one kind in the mask): quick tier of C16, thorough tier here")
    if tier == "quick":
        # public entry point (generate_moves_for itself) on three rotating cubes as a cross-check of the composition; all 21 in thorough
        pub = [("king", 0), ("pawn", 0), ("pawn", 1), ("king", 1), ("rook", 0), ("bishop", 1), ("queen", 0), ("knight", 1), ("king", 2)]
        pick = [pub[(3 * seed + i) % len(pub)] for i in range(3)]
        for k, c in pick:
            qs += cube_queries("c01_origin", [k], [c], cap, 5)
        res.notrun.append("public-entry c01_origin cubes other than %s: thorough tier (or another VERIF_SEED)" % (pick,))
    else:
        qs += cube_queries("c01_origin", KINDS, [0, 1, 2], cap, 5)
    engine.run_plan(res, filt(qs, only), workers=12)
    return RULE


PLANS["C01"] = plan_c01


# ---------------------------------------------------------------------------- C13 / C14
def plan_c13(res, tier, seed, only):
    res.functions = ["Board::same_position", "effective_ep", "Board::is_legal (pawn branch)", "ZobristBoard::board_is_equal", "hash_without_ep"]
    res.bounds = {"boards": "every accepted board with an en-passant file (ep_effect); every pair of accepted boards (pair, thorough)",
                  "clocks": "unconstrained on both boards"}
    res.assumptions = list(BOARD_ASSUME) + ["hashes are modelled as an arbitrary function of the position (justified by C10/C11): equal cores get "
                                            "equal hash-without-ep, the ep key is the behavioural key"]
    oracle_validation(res)
    cap = 600 if tier == "quick" else 2700
    names = ["c13_ep_effect_w", "c13_ep_effect_b"] + (["c13_ep_sym_w", "c13_ep_sym_b"] if tier == "thorough" else ["c13_ep_sym_" + "wb"[seed % 2]])
    qs = [Query("brd::" + nme, stubbing=True, rules=board_rules(), default_unwind=2, timeout=cap, mem_gb=14) for nme in names]
    if tier == "thorough":
        qs += [Query("brd::c13_ep_refl_" + c, stubbing=True, rules=board_rules(), default_unwind=2, timeout=cap, mem_gb=24) for c in "wb"]
    else:
        res.notrun.append("reflexivity instances and the other colour's symmetry instance: thorough tier")
    if tier == "thorough":
        if os.environ.get("VERIF_ATTEMPTS") == "1":
            # two arbitrary accepted boards: 36 M clauses, no verdict in 45 min; attempt only on request
            qs.append(Query("brd::c13_pair", stubbing=True, rules=board_rules(), default_unwind=2, timeout=cap, mem_gb=16))
        qs.append(Query("brd::c13_two_files", stubbing=True, rules=board_rules(), default_unwind=2, timeout=cap, mem_gb=16))
    else:
        res.notrun.append("c13_two_files (same board, two different en-passant files; 17 min) and the reflexivity instances: thorough tier")
    engine.run_plan(res, filt(qs, only), workers=4)
    return RULE


def plan_c14(res, tier, seed, only):
    res.functions = ["Board::null_move", "ZobristBoard::toggle_side_to_move", "ZobristBoard::set_en_passant"]
    a = 4 if tier == "quick" else 16
    res.bounds = {"boards": "every accepted board", "slider loop": "at most %d enemy sliders on the lines of the new mover's king%s" % (
        a, " (16 = no bound: a side has at most 16 pieces)" if a == 16 else "; more are outside this tier's claim")}
    res.assumptions = list(BOARD_ASSUME) + ["pre-state hash is the reference hash (XOR of behavioural keys)"]
    oracle_validation(res)
    cap = 600 if tier == "quick" else 2700
    qs = [Query("brd::c14_null_%s_a%d" % (s, a), stubbing=True, rules=board_rules(a), default_unwind=2, timeout=cap, mem_gb=10) for s in "wb"]
    engine.run_plan(res, filt(qs, only), workers=2)
    return RULE


PLANS["C13"] = plan_c13
PLANS["C14"] = plan_c14


# ---------------------------------------------------------------------------- C02 / C03 / C10: the step family
STEP_KINDS = ["pawn", "knight", "bishop", "rook", "queen", "king", "castle"]


def step_plan(prefix, res, tier, seed, only, extra=None):
    oracle_validation(res)
    a = 2 if tier == "quick" else 16
    cap = 900 if tier == "quick" else 3000
    res.bounds = {"boards": "every accepted board, no piece-count bound", "moves": "every legal move (reference legality assumed; tied to the "
                  "real generator/is_legal by C01/C04)", "cubes": "moved piece kind: pawn, knight, bishop, rook, queen, king step, castling",
                  "slider loop": "at most %d own sliders on the lines of the enemy king after the move%s" % (
                      a, " (no bound)" if a == 16 else "; positions with more are outside the quick tier's claim"),
                  "histories": "one inductive step from an arbitrary accepted board; closure (successor accepted) is asserted by the C02 instances, "
                               "so the statement extends to histories of any length"}
    kinds = STEP_KINDS
    if prefix == "c10":
        # the hash instances are the slowest of the family (13 min per cube measured): quick runs four of the seven cubes
        cap = 1500 if tier == "quick" else 3600
        if tier == "quick":
            kinds = ["castle", ["knight", "bishop", "rook", "queen"][seed % 4]]
            res.notrun.append("c10 step cubes pawn, king and three of knight/bishop/rook/queen (7-20 min each): thorough tier or another VERIF_SEED")
    qs = [Query("brd::%s_step_%s_a%d" % (prefix, k, a), stubbing=True, rules=board_rules(a), default_unwind=2, timeout=cap, mem_gb=6)
          for k in kinds]
    if extra:
        qs += extra
    engine.run_plan(res, filt(qs, only), workers=8)


def plan_c02(res, tier, seed, only):
    res.functions = ["Board::play_unchecked", "ZobristBoard::xor_square/set_castle_right/set_en_passant/toggle_side_to_move", "Board::piece_on"]
    res.assumptions = list(BOARD_ASSUME)
    step_plan("c02", res, tier, seed, only)
    return RULE


def plan_c03(res, tier, seed, only):
    res.functions = ["Board::play_unchecked (checkers/pinned updates)", "Board::null_move (via C14)", "Board::calculate_checkers_and_pins (fresh, via C06)"]
    res.assumptions = list(BOARD_ASSUME) + ["'equals what a freshly constructed board reports' is the conjunction of this step (incremental == reference) "
                                            "and C06's fresh_equals_ref (constructor == reference)"]
    a = 4 if tier == "quick" else 16
    extra = [Query("brd::c14_null_%s_a%d" % (c, a), stubbing=True, rules=board_rules(a), default_unwind=2, timeout=900 if tier == "quick" else 3000, mem_gb=10) for c in "wb"]
    step_plan("c03", res, tier, seed, only, extra)
    return RULE


def plan_c10(res, tier, seed, only):
    res.functions = ["Board::play_unchecked (hash updates)", "Board::hash", "Board::hash_without_ep", "ZobristBoard writers"]
    res.assumptions = list(BOARD_ASSUME) + ["pre-state hash = XOR of behavioural feature keys (established for constructed boards by the builder "
                                            "sequencing harness of C09 and preserved by this step and by C14's null-move step)"]
    extra = [H("zob", n, timeout=900, mem_gb=8) for n in ["c11_linearity", "c10_without_ep"]]
    a = 4 if tier == "quick" else 16
    extra += [Query("brd::c14_null_%s_a%d" % (c, a), stubbing=True, rules=board_rules(a), default_unwind=2, timeout=900 if tier == "quick" else 3000, mem_gb=10) for c in "wb"]
    step_plan("c10", res, tier, seed, only, extra)
    return RULE


PLANS["C02"] = plan_c02
PLANS["C03"] = plan_c03
PLANS["C10"] = plan_c10


# ---------------------------------------------------------------------------- C06 / C09 / C08 / C12 / C15 / C16 / C20
def c06_rules(a=4, n=4):
    return [
        HARNESS_CODE,
        (r"from_board", max(n + 1, 7), "6 piece kinds; pieces per (colour, kind) bounded by the harness assumption (<= %d per colour)" % n),
        (r"add_board|BoardBuilder::build", 66, "64 squares"),
        (r"add_castle_rights", 3, "2 colours"),
        (r"write_piece_config|nth|advance_by|try_fold", 10, "back rank: <= 8 free squares"),
    ] + [r for r in board_rules(a) if r is not HARNESS_CODE]


def plan_c06(res, tier, seed, only):
    res.functions = ["Board::board_is_valid", "Board::checkers_and_pins_are_valid", "Board::calculate_checkers_and_pins",
                     "Board::castle_rights_are_valid", "Board::en_passant_is_valid", "halfmove/fullmove validators",
                     "BoardBuilder::build (+ add_board/add_castle_rights/add_en_passant/add_halfmove_clock/add_fullmove_number)",
                     "BoardBuilder::double_chess960_startpos / write_piece_config", "closure: Board::play_unchecked / null_move (via C02/C14)"]
    a = 4 if tier == "quick" else 8
    res.bounds = {"validators": "every raw board; slider loops bounded by <= %d sliders aligned with the king concerned (more: outside the lemma)" % a,
                  "builder": "every builder state (64 optional pieces, side, four optional right files, optional ep square, clocks)",
                  "start positions": "all 960 x 960 pairs (symbolic Scharnagl numbers)",
                  "acceptance of reachable positions": "closure assertions of the C02 step harnesses and the C14 null-move harness + start positions accepted"}
    res.assumptions = ["the build() sequencing harness replaces the private validators by stubs that answer what the reference predicates say; "
                       "the per-validator harnesses prove the real validators answer the same",
                       "FEN text route: only the field parsers are decided (C08); whole records are outside the claim"]
    oracle_validation(res)
    cap = 900 if tier == "quick" else 3000
    mk = lambda nme, mem=8, **kw: Query("c06::" + nme, stubbing=kw.pop("stubbing", False), rules=c06_rules(a, 4), default_unwind=2, timeout=kw.pop("timeout", cap), mem_gb=mem, **kw)
    qs = [mk("c06_v_board_a%d" % a), mk("c06_v_fresh_w_a%d" % a), mk("c06_v_fresh_b_a%d" % a), mk("c06_v_ckpin_a%d" % a), mk("c06_v_castle"), mk("c06_v_ep"), mk("c06_v_clocks"),
          mk("c06_startpos"), mk("c06_accessors_setters"),
          mk("c06_set_half_panics", should_panic=True), mk("c06_set_full_panics", should_panic=True)]
    if tier == "thorough":
        mk16 = lambda nme: Query("c06::" + nme, stubbing=True, rules=c06_rules(16, 4), default_unwind=2, timeout=cap, mem_gb=8)
        qs += [mk16("c06_v_board_a16"), mk16("c06_v_fresh_w_a16"), mk16("c06_v_fresh_b_a16"), mk16("c06_v_ckpin_a16"),
               mk("c09_build_seq", mem=16, stubbing=True), mk("c09_build_seq_r%s" % ["2367", "1458"][seed % 2], mem=8, stubbing=True)]
    else:
        res.notrun.append("build() sequencing (the glue that turns the validators into acceptance): run by C09's quick check on a reduced builder, here in the thorough tier on the 64-cell builder")
    engine.run_plan(res, filt(qs, only), workers=10)
    return RULE


def plan_c09(res, tier, seed, only):
    res.functions = ["BoardBuilder::build", "BoardBuilder::from_board", "add_board", "add_castle_rights", "add_en_passant", "add_halfmove_clock",
                     "add_fullmove_number", "Board::parse_side_to_move/parse_castle_rights/parse_en_passant/parse_halfmove_clock/parse_fullmove_number (field level)"]
    a = 4 if tier == "quick" else 8
    n = 4 if tier == "quick" else 16
    res.bounds = {"builder states": "all (64 optional pieces, side, rights, ep square, clocks)", "from_board": "accepted boards with <= %d pieces per colour" % n,
                  "parser side": "field parsers on bounded strings only (C08); record-level equality from_fen(text) == build(state) is outside the claim"}
    res.assumptions = ["validators stubbed by the reference predicates in the sequencing harness (discharged by C06's per-validator harnesses; the castle, "
                       "en-passant and clock lemmas are also run here, the board/checkers lemmas only under C06)"]
    oracle_validation(res)
    cap = 900 if tier == "quick" else 3000
    rk = ["1458", "2367"]
    rq = ["148", "158", "267", "237"]
    qs = [Query("c06::c09_build_seq_r%s" % (rq[seed % 4] if tier == "quick" else rk[seed % 2]), stubbing=True, rules=c06_rules(a, n), default_unwind=2, timeout=max(cap, 1500), mem_gb=8),
          Query("c06::c09_from_board_n%d" % n, stubbing=True, rules=c06_rules(a, n), default_unwind=2, timeout=cap, mem_gb=10),
          H("c08", "c08_castle_shredder", timeout=cap, mem_gb=8), H("c08", "c08_ep", timeout=cap, mem_gb=8), H("c08", "c08_side", timeout=cap, mem_gb=8)]
    # the three cheap validator lemmas the sequencing harness rests on (also part of C06): real validator == reference predicate, every raw board
    qs += [Query("c06::" + v, stubbing=False, rules=c06_rules(a, 4), default_unwind=2, timeout=cap, mem_gb=8) for v in ("c06_v_castle", "c06_v_ep", "c06_v_clocks")]
    if tier == "thorough":
        if os.environ.get("VERIF_ATTEMPTS") == "1":
            # dense XOR over all keys of a 64-cell builder: no verdict in 50 min (XOR-chain equivalence); attempt only on request.
            # The builder-route hash is covered compositionally: writers are linear in the keys (c11_linearity) and build() only uses them.
            qs.append(Query("c06::c09_build_seq_hash", stubbing=True, rules=c06_rules(a, n), default_unwind=2, timeout=cap, mem_gb=20))
        qs.append(Query("c06::c09_build_seq", stubbing=True, rules=c06_rules(a, n), default_unwind=2, timeout=cap, mem_gb=16))
        qs.append(Query("c06::c09_build_seq_r%s" % rk[(seed + 1) % 2], stubbing=True, rules=c06_rules(a, n), default_unwind=2, timeout=cap, mem_gb=8))
    else:
        res.notrun.append("build() on the fully symbolic 64-cell builder and the hash of the built board: thorough tier (quick: pieces confined to four ranks, rotating with VERIF_SEED)")
    engine.run_plan(res, filt(qs, only), workers=5)
    return RULE


def plan_c08(res, tier, seed, only):
    res.functions = ["Board::parse_side_to_move", "Board::parse_castle_rights", "Board::parse_en_passant", "Board::parse_halfmove_clock",
                     "Board::parse_fullmove_number", "Board::parse_board (short strings only)"]
    res.bounds = {"strings": "every valid UTF-8 string of <= 3 bytes (side, ep), <= 5 (castling), <= 6 (clocks); placement field: <= 2 (quick) / <= 3 (thorough) "
                             "bytes, which can never denote eight ranks", "not decided": "record splitting (split(' '), field count, error mapping) and faithful "
                             "decoding of a full placement field; whole FEN records (measured out of reach, DESIGN.md C07/C08)"}
    res.assumptions = ["field parsers are reached through the add-only hook Board::verif_parse_field"]
    cap = 900 if tier == "quick" else 3000
    names = ["c08_side", "c08_castle_fen", "c08_castle_shredder", "c08_ep", "c08_halfmove", "c08_fullmove"]
    qs = [H("c08", nme, timeout=cap, mem_gb=10) for nme in names]

    def placement(nbytes):
        # parse_board on every string of <= nbytes bytes: too short for eight ranks, so it must be rejected and must not panic.
        # core's memchr/memrchr are replaced by their definitions (they branch on pointer alignment); loop bounds nbytes + 2.
        rules = [HARNESS_CODE, (r"core/src/array/", 9, "array::map in the raw constructor"),
                 (r"parse_board|memrchr|memchr|memcmp|next_match_back|validations|library/core/src/(str|slice|iter|char|num)/", nbytes + 2,
                  "strings of <= %d bytes" % nbytes)]
        return Query("c08::c08_placement_%d" % nbytes, stubbing=True, rules=rules, default_unwind=nbytes + 2, timeout=cap, mem_gb=12)

    qs.append(placement(2))
    if tier == "thorough":
        qs.append(placement(3))
    else:
        res.notrun.append("c08_placement_3 (placement field on <= 3-byte strings, 9 min): thorough tier")
    engine.run_plan(res, filt(qs, only), workers=8)
    return RULE


def plan_c12(res, tier, seed, only):
    res.functions = ["Board::status", "Board::generate_moves (abort contract, via the per-origin abort harnesses)"]
    res.bounds = {"status glue": "every board value, every answer of generate_moves, clock 0..=100",
                  "has-a-legal-move": "generate_moves(|_| true) returns true iff some batch is delivered: dispatch (c16_dispatch, every board) + "
                                      "per-origin abort harnesses (every accepted board); batches are exactly the legal moves of their origin: the per-generator C01 harnesses (c01_gen, 14 cubes) are run here too"}
    res.assumptions = list(BOARD_ASSUME)
    oracle_validation(res)
    cap = 600 if tier == "quick" else 2700
    qs = [Query("glue::c12_status", stubbing=True, timeout=cap, mem_gb=6),
          Query("c16::c16_dispatch", stubbing=True, timeout=cap, mem_gb=8)]
    res.assumptions.append(GEN_NOTE)
    qs += gen_queries("c16_gen_abort", KINDS[:6], [0, 1, 2], cap)
    # "a batch is delivered for an origin iff that origin has a legal move" is the per-generator C01 statement: run it here as well, so that a
    # generator emitting an illegal move (status Ongoing in a stalemate) or dropping a legal one is caught by this check and not only by C01
    qs += gen_queries("c01_gen", KINDS[:6], [0, 1, 2], cap)
    if tier == "thorough":
        qs += cube_queries("c16_abort", KINDS[:6], [0, 1, 2], cap, 5)
        if os.environ.get("VERIF_ATTEMPTS") == "1":
            # bounded status semantics with the real generator: did not finish in 25 min even at <= 3 pieces (DESIGN 10.2); attempt only on request
            qs += [Query("full::c12_sem_n%d_c%d" % (nn, c), stubbing=True, rules=board_rules(16, full_n=nn), default_unwind=2, timeout=cap, mem_gb=16)
                   for nn, c in [(3, 0), (3, 1)]]
    engine.run_plan(res, filt(qs, only), workers=8)
    return RULE


def plan_c15(res, tier, seed, only):
    res.functions = ["Board::try_play", "Board::play", "Board::is_legal (via C04 cubes)", "Board::play_unchecked (delegated, C02)"]
    res.bounds = {"boards": "every accepted board", "moves": "all 64*64*7 values",
                  "composition": "wrapper logic with is_legal/play_unchecked stubbed (the stub answers the reference legality) + is_legal == reference legality (C04 cubes)"}
    res.assumptions = list(BOARD_ASSUME)
    oracle_validation(res)
    cap = 600 if tier == "quick" else 2700
    qs = [Query("glue::c15_try_play", stubbing=True, timeout=cap, mem_gb=8), Query("glue::c15_play_legal", stubbing=True, timeout=cap, mem_gb=8),
          Query("glue::c15_play_illegal", stubbing=True, timeout=cap, mem_gb=8, should_panic=True)]
    if tier == "quick":
        rot = KINDS[(seed % 5)]
        qs += cube_queries("c04_vs_ref", ["king", rot], [0, 1, 2], cap, 8) + cube_queries("c04_vs_ref", ["pawn", "none"], [2, 0], cap, 8)
        res.notrun.append("remaining c04_vs_ref cubes: thorough tier / C04's own check")
    else:
        qs += cube_queries("c04_vs_ref", KINDS, [0, 1, 2], cap, 8)
    engine.run_plan(res, filt(qs, only), workers=12)
    return RULE


def plan_c16(res, tier, seed, only):
    res.functions = ["Board::generate_moves_for", "Board::generate_moves", "add_all_legals (dispatch, abort_if)", "per-piece generators (abort propagation, single origin)"]
    res.bounds = {"dispatch": "every board value, every mask, every abort point, generators replaced by arbitrary batch emitters (<= 2 batches each)",
                  "generators": "every accepted board, every single-origin mask: exactly the legal moves of that origin (C01 harness), abort at call 0/1",
                  "batches": "<= 2 per origin and 2 only for a pawn attacking the en-passant square (<= 2 such pawns): at most 16 + 2 = 18 batches",
                  "multi-origin": "masks holding two and three pieces of one kind (c01_gen2 / c01_gen3): every move of the queried origin exactly once, no batch about a square outside the mask",
                  "not decided": "a fourth and later iteration of one generator loop behaving like the first three (each iteration reads only the loop variable and "
                                 "loop-invariant values: stated as an assumption); a symbolic-mask harness on <= N pieces is attempted in the thorough tier"}
    res.assumptions = list(BOARD_ASSUME)
    oracle_validation(res)
    cap = 900 if tier == "quick" else 2700
    qs = [Query("c16::c16_dispatch", stubbing=True, timeout=cap, mem_gb=8), Query("c16::c16_full_mask", stubbing=True, timeout=cap, mem_gb=8)]
    res.assumptions.append(GEN_NOTE)
    qs += gen_queries("c16_gen_abort", KINDS[:6], [0, 1, 2], cap) + gen_queries("c16_silent", KINDS[:6], [0, 1, 2], cap)
    qs += gen_queries("c01_gen", KINDS[:6], [0, 1, 2], cap) + gen_queries("c01_gen2", KINDS[:5], [0, 1], cap)
    qs += gen_queries("c01_gen3", GEN3, [0, 1], cap)  # three origins of one kind in the mask
    if tier == "quick":
        pub = KINDS[:6]
        qs += cube_queries("c16_abort", [pub[seed % 6], pub[(seed + 3) % 6]], [0, 1], cap, 5)
        res.notrun.append("public-entry abort cubes of the other kinds and the bounded symbolic-mask harness: thorough tier or another VERIF_SEED")
    else:
        qs += cube_queries("c16_abort", KINDS[:6], [0, 1, 2], cap, 5)
        if os.environ.get("VERIF_ATTEMPTS") == "1":
            # symbolic-mask generation on <= 3 pieces: did not finish in 25 min (DESIGN 10.2); attempt only on request
            qs += [Query("full::c16_masked_n%d_c%d" % (nn, c), stubbing=True, rules=board_rules(16, full_n=nn), default_unwind=2, timeout=cap, mem_gb=16)
                   for nn, c in [(3, 0), (3, 1)]]
    engine.run_plan(res, filt(qs, only), workers=12)
    return RULE


def plan_c20(res, tier, seed, only):
    res.functions = ["util::display_uci_move", "util::parse_uci_move", "Move::from_str / Display (via C19)"]
    res.bounds = {"UCI pair": "every accepted board whose rights are orthodox (king e-file, rooks a/h), every legal move; reader on every string <= 6 bytes",
                  "SAN": "NOT decided in this tier (full-mask generation + formatting per query; see DESIGN.md C20)"}
    res.assumptions = list(BOARD_ASSUME)
    oracle_validation(res)
    cap = 900 if tier == "quick" else 2700
    qs = [Query("c20::" + nme, stubbing=True, rules=board_rules(), default_unwind=2, timeout=cap, mem_gb=10)
          for nme in ["c20_uci_roundtrip_plain", "c20_uci_roundtrip_castle", "c20_uci_reader_total"]]
    engine.run_plan(res, filt(qs, only), workers=3)
    return RULE


PLANS.update({"C06": plan_c06, "C09": plan_c09, "C08": plan_c08, "C12": plan_c12, "C15": plan_c15, "C16": plan_c16, "C20": plan_c20})
