"""Kani/CBMC runner: one solver query per call, bounded, with unwinding
assertions kept on; parses the verdict, vacuity witnesses and solver statistics,
and on a failed check extracts the concrete witness for native replay."""
import os, re, subprocess, time, json, signal, hashlib, glob, shlex

VERIF = os.path.dirname(os.path.dirname(os.path.abspath(__file__)))
HARNESS = os.environ.get("VERIF_HARNESS_DIR") or os.path.join(VERIF, "harness")  # (override: experiments on a scratch copy)
WORK = os.environ.get("VERIF_WORK_DIR") or os.path.join(VERIF, ".work")
CFG = "--cfg cozy_chess_verif"

# the four table lookups replaced by formula stubs in board-level harnesses
SLIDER_STUBS = True


def _env(extra_rustflags=""):
    e = dict(os.environ)
    e["RUSTFLAGS"] = (CFG + " " + extra_rustflags).strip()
    e["CARGO_NET_OFFLINE"] = "true"
    e.pop("RUST_BACKTRACE", None)
    return e


def _run(cmd, env, timeout, mem_gb, log):
    """Run cmd (list) under a memory and time cap, whole process group killed on timeout."""
    sh = "ulimit -v %d; exec /usr/bin/time -f MAXRSS_KB=%%M %s" % (int(mem_gb * 1024 * 1024), " ".join(shlex.quote(c) for c in cmd))
    t0 = time.time()
    with open(log, "w") as lf:
        p = subprocess.Popen(["bash", "-c", sh], cwd=HARNESS, env=env, stdout=lf, stderr=subprocess.STDOUT,
                             start_new_session=True)
        try:
            rc = p.wait(timeout=timeout)
            timed_out = False
        except subprocess.TimeoutExpired:
            timed_out = True
            try:
                os.killpg(p.pid, signal.SIGKILL)
            except ProcessLookupError:
                pass
            p.wait()
            rc = -9
    return rc, timed_out, time.time() - t0


def lane_dir(lane):
    d = os.path.join(WORK, "lane%d" % lane)
    os.makedirs(d, exist_ok=True)
    return d


def _base_cmd(harness, lane, stubbing, features):
    cmd = ["cargo", "kani", "--harness", harness, "--exact", "--target-dir", lane_dir(lane)]
    # always on: harmless for harnesses without stub attributes, required for those with
    cmd += ["-Z", "stubbing"]
    if features:
        cmd += ["--features", features]
    return cmd


def discover_loops(harness, lane, stubbing, features, extra_rustflags, log):
    """Compile only, then ask CBMC for the loops of the goto binary. Returns [(loop id, file, line, function)]."""
    cmd = _base_cmd(harness, lane, stubbing, features) + ["--only-codegen"]
    rc, to, _ = _run(cmd, _env(extra_rustflags), 900, 16, log)
    if rc != 0:
        return None
    short = harness.split("::")[-1]
    outs = [p for p in glob.glob(os.path.join(lane_dir(lane), "kani", "**", "*.out"), recursive=True)
            if p.endswith(short + ".out") or re.search(r"\d+%s\.out$" % re.escape(short), p)]
    if not outs:
        return None
    out = max(outs, key=os.path.getmtime)
    r = subprocess.run(["cbmc", "--show-loops", out], capture_output=True, text=True)
    loops = []
    cur = None
    for line in r.stdout.splitlines():
        m = re.match(r"Loop (\S+):", line)
        if m:
            cur = m.group(1)
            continue
        m = re.match(r"\s*file (\S+) line (\d+)(?: column \d+)? function (.*)", line)
        if m and cur:
            loops.append((cur, m.group(1), int(m.group(2)), m.group(3)))
            cur = None
    return loops


def unwindset_from_rules(loops, rules, default):
    """rules: [(regex on 'file:function', bound, reason)]. Every loop gets the bound of the
    first matching rule, else `default`. Returns (unwindset string, table for evidence)."""
    parts, table = [], []
    for lid, f, line, fn in loops:
        key = "%s:%s" % (f, fn)
        b, why = default, "default"
        for rx, bound, reason in rules:
            if re.search(rx, key):
                b, why = bound, reason
                break
        parts.append("%s:%d" % (lid, b))
        table.append({"loop": fn.split("::")[-1][:60], "file": os.path.basename(f), "line": line, "unwind": b, "why": why})
    return ",".join(parts), table


CHECK_RE = re.compile(r"^Check (\d+): (.*?)\s*$")


def parse_log(text, harness_name=None):
    res = {"failed": [], "unwinding_failed": [], "covers_total": 0, "covers_sat": 0, "covers_unsat": [],
           "verdict": None, "vars": 0, "clauses": 0, "symex_s": 0.0, "solver_s": 0.0, "checks": 0,
           "vccs": None, "stubs": [], "error": None, "undetermined": 0}
    lines = text.splitlines()
    i = 0
    while i < len(lines):
        l = lines[i]
        m = CHECK_RE.match(l)
        if m:
            name = m.group(2)
            status = desc = loc = ""
            j = i + 1
            while j < len(lines) and lines[j].strip().startswith("- "):
                s = lines[j].strip()
                if s.startswith("- Status:"):
                    status = s.split(":", 1)[1].strip()
                elif s.startswith("- Description:"):
                    desc = s.split(":", 1)[1].strip().strip('"')
                elif s.startswith("- Location:"):
                    loc = s.split(":", 1)[1].strip()
                j += 1
            if ".cover." in name or name.startswith("cover"):
                # a witness named "@tag text" is only required in harnesses whose name contains tag
                required = True
                if desc.startswith("!"):
                    # forbidden witness: must NOT be reachable/satisfiable
                    if status == "SATISFIED":
                        res["failed"].append({"check": name, "desc": "forbidden state reached: " + desc[1:], "loc": loc})
                    else:
                        res["forbidden_ok"] = res.get("forbidden_ok", 0) + 1
                    i = j
                    continue
                mt = re.match(r"@(\S+) ", desc)
                if mt and harness_name is not None:
                    required = re.search(mt.group(1), harness_name) is not None
                if required:
                    res["covers_total"] += 1
                    if status == "SATISFIED":
                        res["covers_sat"] += 1
                    else:
                        res["covers_unsat"].append({"name": desc, "status": status})
            else:
                res["checks"] += 1
                if status == "FAILURE":
                    ent = {"check": name, "desc": desc, "loc": loc}
                    if "unwinding assertion" in desc or ".unwind." in name:
                        res["unwinding_failed"].append(ent)
                    else:
                        res["failed"].append(ent)
                elif status == "UNDETERMINED":
                    res["undetermined"] += 1
            i = j
            continue
        m = re.match(r"(\d+) variables, (\d+) clauses", l)
        if m:
            res["vars"] = max(res["vars"], int(m.group(1)))
            res["clauses"] = max(res["clauses"], int(m.group(2)))
        m = re.match(r"Runtime Symex: ([\d.e+-]+)s", l)
        if m:
            res["symex_s"] += float(m.group(1))
        m = re.match(r"Runtime decision procedure: ([\d.e+-]+)s", l)
        if m:
            res["solver_s"] += float(m.group(1))
        m = re.match(r"Generated (\d+) VCC\(s\), (\d+) remaining", l)
        if m:
            res["vccs"] = [int(m.group(1)), int(m.group(2))]
        m = re.match(r"MAXRSS_KB=(\d+)", l)
        if m:
            res["maxrss_gb"] = round(int(m.group(1)) / 1048576.0, 2)
        if l.startswith("VERIFICATION:-"):
            res["verdict"] = l.split(":-")[1].strip()
        m = re.match(r"\s*- Stub: (.*)", l)
        if m:
            res["stubs"].append(m.group(1).strip())
        if "out of memory" in l.lower():
            res["error"] = "solver ran out of memory (ulimit)"
        elif res["error"] is None and ("Status: ERROR" in l or l.startswith("error:") or "CBMC failed" in l):
            res["error"] = l.strip()[:200]
        i += 1
    return res


def parse_playback(text):
    """Concrete playback prints one unit test per failed check AND per satisfied cover, each with
    `/// Check for `<kind>`: "<desc>"` and `let concrete_vals: Vec<Vec<u8>> = vec![ vec![..], ..]`.
    Returns the value vectors of the tests that belong to failed checks (covers are skipped)."""
    out = []
    for blk in re.split(r"Concrete playback unit test for", text)[1:]:
        km = re.search(r"/// Check for `([^`]*)`: \"(.*?)\"", blk)
        kind = km.group(1) if km else ""
        m = re.search(r"let concrete_vals: Vec<Vec<u8>> = vec!\[(.*?)\];", blk, re.S)
        if not m:
            continue
        vals = []
        for vm in re.finditer(r"vec!\[([^\]]*)\]", m.group(1)):
            line = vm.group(1)
            vals.append([int(x) for x in re.findall(r"\d+", line)])
        if kind != "cover":
            out.append(vals)
    return out or None


class Query:
    """One Kani harness run = one (family of) solver queries over the compiled code."""

    def __init__(self, harness, stubbing=False, rules=None, default_unwind=None, timeout=600, mem_gb=12,
                 features=None, extra_rustflags="", should_fail=False, note="", reach_checks=False, should_panic=False):
        self.harness = harness
        self.stubbing = stubbing
        self.rules = rules  # None => harness carries #[kani::unwind]
        self.default_unwind = default_unwind
        self.timeout = timeout
        self.mem_gb = mem_gb
        self.features = features
        self.extra_rustflags = extra_rustflags
        self.should_fail = should_fail  # reachability twin: a FAILED verdict is the expected outcome
        self.note = note
        self.reach_checks = reach_checks
        self.should_panic = should_panic  # #[kani::should_panic] harness: panics are the expected outcome


def run_query(q, lane, logdir, playback=True):
    os.makedirs(logdir, exist_ok=True)
    short = q.harness.split("::")[-1]
    log = os.path.join(logdir, short + ".log")
    out = {"harness": q.harness, "note": q.note, "stubbing": q.stubbing, "timeout_s": q.timeout, "mem_gb": q.mem_gb}
    cmd = _base_cmd(q.harness, lane, q.stubbing, q.features)
    if not q.reach_checks:
        cmd += ["--no-assertion-reach-checks"]
    t0 = time.time()
    if q.rules is not None:
        loops = discover_loops(q.harness, lane, q.stubbing, q.features, q.extra_rustflags, log + ".codegen")
        if loops is None:
            out.update(status="inconclusive", reason="codegen or loop discovery failed", wall_s=time.time() - t0, log=log + ".codegen")
            return out
        uws, table = unwindset_from_rules(loops, q.rules, q.default_unwind or 2)
        out["unwind_table"] = table
        cmd += ["-Z", "unstable-options", "--cbmc-args", "--unwind", str(q.default_unwind or 2)]
        if uws:
            cmd += ["--unwindset", uws]
    rc, timed_out, wall = _run(cmd, _env(q.extra_rustflags), q.timeout, q.mem_gb, log)
    text = open(log, errors="replace").read()
    p = parse_log(text, short)
    out.update(wall_s=round(time.time() - t0, 2), vars=p["vars"], clauses=p["clauses"], symex_s=round(p["symex_s"], 2),
               solver_s=round(p["solver_s"], 2), checks=p["checks"], covers_sat=p["covers_sat"],
               covers_total=p["covers_total"], stubs=p["stubs"], log=log, vccs=p["vccs"], maxrss_gb=p.get("maxrss_gb"))
    if timed_out:
        out.update(status="inconclusive", reason="timeout after %ds" % q.timeout)
        return out
    if p["verdict"] is None:
        out.update(status="inconclusive", reason="no verdict (rc=%s): %s" % (rc, p["error"] or text[-300:].replace("\n", " | ")))
        return out
    if p["unwinding_failed"] and not (p["failed"] and not q.should_fail and not q.should_panic):
        out.update(status="inconclusive", reason="unwinding assertion failed: %s" % p["unwinding_failed"][0]["loc"],
                   unwinding_failed=p["unwinding_failed"][:5])
        return out
    if p["unwinding_failed"]:
        # a property check failed as well: the witness is replayed natively, which alone decides whether it is reported
        out["unwinding_failed"] = p["unwinding_failed"][:5]
    if q.should_fail:
        # reachability twin: its final assert(false) must be reported as FAILURE
        if p["failed"]:
            out.update(status="pass", reason="reachability witness violated as expected")
        else:
            out.update(status="inconclusive", reason="vacuous: reachability twin was not violated")
        return out
    if q.should_panic:
        p["failed"] = [f for f in p["failed"] if f["desc"].startswith("forbidden state reached")]
        if not p["failed"] and not (p["verdict"] or "").startswith("SUCCESSFUL"):
            out.update(status="fail", failed=[{"check": "should_panic", "desc": "expected panic did not occur on every path: " + str(p["verdict"]), "loc": ""}])
            return out
        if not p["failed"] and not p.get("forbidden_ok"):
            out.update(status="inconclusive", reason="should_panic harness without its unreachable marker")
            return out
    if p["failed"]:
        out.update(status="fail", failed=p["failed"][:8])
        if playback:
            pb = _base_cmd(q.harness, lane, q.stubbing, q.features) + ["--no-assertion-reach-checks", "-Z", "concrete-playback",
                                                                       "--concrete-playback=print"]
            if q.rules is not None:
                pb += ["-Z", "unstable-options", "--cbmc-args", "--unwind", str(q.default_unwind or 2)]
                if uws:
                    pb += ["--unwindset", uws]
            # the playback run does not slice the formula: it needs more memory and time than the deciding run
            rc2, to2, _ = _run(pb, _env(q.extra_rustflags), max(q.timeout, 1800), max(q.mem_gb * 3, 24), log + ".playback")
            vals = parse_playback(open(log + ".playback", errors="replace").read())
            out["witness_list"] = vals
            out["witness_vals"] = vals[0] if vals else None
        return out
    if p["undetermined"]:
        out.update(status="inconclusive", reason="%d checks UNDETERMINED" % p["undetermined"])
        return out
    if not p["verdict"].startswith("SUCCESSFUL"):
        out.update(status="inconclusive", reason="verdict %s without a failed check%s" % (p["verdict"], (": " + p["error"]) if p["error"] else ""))
        return out
    if p["covers_unsat"]:
        out.update(status="inconclusive", reason="vacuity witness not satisfied: %s" % p["covers_unsat"][0], covers_unsat=p["covers_unsat"])
        return out
    out.update(status="pass")
    return out
