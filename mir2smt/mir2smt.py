"""MIR -> SMT: a small symbolic executor for loop-free integer functions of a rustc MIR dump
(-Zunpretty=mir). Produces z3 bit-vector terms for the return value and a list of (path condition, panic message).

Supported: integer/bool locals, tuples, newtype/struct field projections, fieldless enums and Option-like enums,
shared references to places, constant arrays indexed by symbolic indices, SwitchInt/Goto/Assert/Return/Unreachable,
calls to other functions of the same dump (inlined, results merged by ITE), checked and wrapping arithmetic, shifts,
casts, and a model of `_pext_u64`. Anything else raises Unsupported: a query is then reported not-translated.
"""
import re
import z3


class Unsupported(Exception):
    pass


INT_T = {"u8": (8, False), "u16": (16, False), "u32": (32, False), "u64": (64, False), "usize": (64, False),
         "i8": (8, True), "i16": (16, True), "i32": (32, True), "i64": (64, True), "isize": (64, True), "u128": (128, False)}


# ------------------------------------------------------------------ values
class Int:
    def __init__(self, t, w, signed):
        self.t, self.w, self.signed = t, w, signed

    def __repr__(self):
        return "Int%d(%s)" % (self.w, self.t)


class Bool:
    def __init__(self, t):
        self.t = t


class Enum:
    """fieldless enum value: discriminant as 64-bit term"""
    def __init__(self, ty, d):
        self.ty, self.d = ty, d


class Adt:
    """enum with payload (Option-like): variant index term (64 bit) + payload per variant name"""
    def __init__(self, ty, var, payload):
        self.ty, self.var, self.payload = ty, var, payload


class Agg:
    """tuple / struct: list of field values"""
    def __init__(self, fields):
        self.fields = list(fields)


class Arr:
    def __init__(self, elems):
        self.elems = list(elems)


class Never:
    pass


def ite(c, a, b):
    if a is None:
        return b
    if b is None:
        return a
    if isinstance(a, Never):
        return b
    if isinstance(b, Never):
        return a
    if isinstance(a, Int):
        return Int(z3.If(c, a.t, b.t), a.w, a.signed)
    if isinstance(a, Bool):
        return Bool(z3.If(c, a.t, b.t))
    if isinstance(a, Enum):
        return Enum(a.ty, z3.If(c, a.d, b.d))
    if isinstance(a, Adt):
        pl = {}
        for k in set(a.payload) | set(b.payload):
            pl[k] = ite(c, a.payload.get(k), b.payload.get(k))
        return Adt(a.ty, z3.If(c, a.var, b.var), pl)
    if isinstance(a, Agg):
        return Agg([ite(c, x, y) for x, y in zip(a.fields, b.fields)])
    if isinstance(a, Arr):
        return Arr([ite(c, x, y) for x, y in zip(a.elems, b.elems)])
    raise Unsupported("ite on %r" % (a,))


# ------------------------------------------------------------------ parsing
class Fn:
    def __init__(self, name, params, ret, locals_, blocks):
        self.name, self.params, self.ret, self.locals, self.blocks = name, params, ret, locals_, blocks


def split_top(s, sep=","):
    out, depth, cur = [], 0, ""
    i = 0
    while i < len(s):
        ch = s[i]
        if ch in "([{<":
            depth += 1
        elif ch in ")]}>":
            if ch == ">" and i > 0 and s[i - 1] == "-":
                pass
            else:
                depth -= 1
        if ch == sep and depth == 0:
            out.append(cur.strip())
            cur = ""
        else:
            cur += ch
        i += 1
    if cur.strip():
        out.append(cur.strip())
    return out


def parse_dump(text):
    """Returns {name: Fn}; the first occurrence of each function is kept (the later one is the CTFE body)."""
    fns = {}
    lines = text.splitlines()
    i = 0
    while i < len(lines):
        m = re.match(r"^fn (.+?)\((.*)\) -> (.+) \{$", lines[i])
        if not m:
            i += 1
            continue
        name, params_s, ret = m.group(1), m.group(2), m.group(3)
        params = []
        for p in split_top(params_s):
            pm = re.match(r"_(\d+): (.+)", p)
            params.append((int(pm.group(1)), pm.group(2)))
        locals_ = {0: ret}
        for n, t in params:
            locals_[n] = t
        blocks = {}
        i += 1
        cur = None
        while i < len(lines) and lines[i] != "}":
            l = lines[i].strip()
            lm = re.match(r"let (?:mut )?_(\d+): (.+);$", l)
            bm = re.match(r"bb(\d+)(?: \(cleanup\))?: \{$", l)
            if lm:
                locals_[int(lm.group(1))] = lm.group(2)
            elif bm:
                cur = int(bm.group(1))
                blocks[cur] = []
            elif l == "}":
                cur = None
            elif cur is not None and l and not l.startswith("//"):
                blocks[cur].append(l)
            i += 1
        if name not in fns:
            fns[name] = Fn(name, params, ret, locals_, blocks)
        i += 1
    return fns


# ------------------------------------------------------------------ executor
class Ctx:
    def __init__(self, fns, enums, consts, intrinsics=None, overflow_checks=True):
        self.fns = fns            # name -> Fn
        self.enums = enums        # type path suffix -> [variant names]
        self.consts = consts      # named constants -> python value builder
        self.intrinsics = intrinsics or {}
        self.panics = []          # (cond, message, function)
        self.calls = []           # functions encoded
        self.depth = 0

    def find_fn(self, callee):
        callee = callee.strip()
        if callee in self.fns:
            return self.fns[callee]
        # generic args / crate prefixes: match by last path segments
        key = re.sub(r"::<[^>]*>", "", callee)
        cands = [f for n, f in self.fns.items() if n == key or n.endswith("::" + key) or key.endswith("::" + n.split("::", 1)[-1])]
        segs = key.split("::")
        if not cands and len(segs) >= 2:
            tail = segs[-1]
            ty = segs[-2].lower()
            cands = [f for n, f in self.fns.items() if n.endswith("::" + tail) and n.split("::")[0] == ty]
        if len(cands) == 1:
            return cands[0]
        if len(cands) > 1:
            raise Unsupported("ambiguous callee %s -> %s" % (callee, [c.name for c in cands][:4]))
        return None

    def enum_of(self, ty):
        ty = ty.strip()
        for k, v in self.enums.items():
            if ty == k or ty.endswith("::" + k):
                return k, v
        return None, None


def mk_int(v, ty):
    w, s = INT_T[ty]
    return Int(z3.BitVecVal(v, w), w, s)


def cast(val, ty):
    if isinstance(val, Bool):
        w, s = INT_T[ty]
        return Int(z3.If(val.t, z3.BitVecVal(1, w), z3.BitVecVal(0, w)), w, s)
    if isinstance(val, Enum):
        val = Int(val.d, 64, True)
    w, s = INT_T[ty]
    if w == val.w:
        t = val.t
    elif w < val.w:
        t = z3.Extract(w - 1, 0, val.t)
    else:
        t = z3.SignExt(w - val.w, val.t) if val.signed else z3.ZeroExt(w - val.w, val.t)
    return Int(t, w, s)


class Exec:
    def __init__(self, ctx, fn, args, pathcond):
        self.ctx, self.fn = ctx, fn
        self.rets = []  # (cond, value)
        env = {}
        for (n, _t), a in zip(fn.params, args):
            env[n] = a
        self.run(0, env, pathcond, 0)

    # ---- places
    def parse_place(self, s):
        """returns a list of projection steps starting from a local: ('local', n), ('field', k), ('deref',),
        ('index', operand string), ('downcast', variant)"""
        s = s.strip()
        if re.fullmatch(r"_\d+", s):
            return [("local", int(s[1:]))]
        m = re.fullmatch(r"\((.+)\)", s)
        if s.startswith("(") and self._balanced(s[1:-1]) and s.endswith(")"):
            inner = s[1:-1]
            if inner.startswith("*"):
                return self.parse_place(inner[1:]) + [("deref",)]
            # (P.K: T)  or (P as Variant)
            dm = self._split_field(inner)
            if dm:
                base, k = dm
                return self.parse_place(base) + [("field", k)]
            am = re.fullmatch(r"(.+) as (\w+)", inner)
            if am:
                return self.parse_place(am.group(1)) + [("downcast", am.group(2))]
        im = re.fullmatch(r"(.+)\[(_\d+)\]", s)
        if im:
            return self.parse_place(im.group(1)) + [("index", im.group(2))]
        cm = re.fullmatch(r"(.+)\[(\d+) of \d+\]", s)
        if cm:
            return self.parse_place(cm.group(1)) + [("cindex", int(cm.group(2)))]
        raise Unsupported("place %r" % s)

    @staticmethod
    def _balanced(s):
        d = 0
        for ch in s:
            if ch == "(":
                d += 1
            elif ch == ")":
                d -= 1
                if d < 0:
                    return False
        return d == 0

    @staticmethod
    def _split_field(inner):
        # find the last top-level ".K: " pattern
        depth = 0
        for i in range(len(inner) - 1, -1, -1):
            ch = inner[i]
            if ch == ")":
                depth += 1
            elif ch == "(":
                depth -= 1
            elif ch == ":" and depth == 0 and inner[i:i + 2] == ": ":
                left = inner[:i]
                fm = re.fullmatch(r"(.+)\.(\d+)", left)
                if fm:
                    return fm.group(1), int(fm.group(2))
                return None
        return None

    def read_place(self, s, env):
        steps = self.parse_place(s)
        v = None
        for st in steps:
            if st[0] == "local":
                if st[1] not in env:
                    raise Unsupported("read of unassigned _%d in %s" % (st[1], self.fn.name))
                v = env[st[1]]
            elif st[0] == "deref":
                pass  # references are modelled by value (no mutation through references in the supported subset)
            elif st[0] == "field":
                if isinstance(v, Adt):
                    v = v.cur_payload.fields[st[1]] if isinstance(v.cur_payload, Agg) else v.cur_payload
                elif isinstance(v, Agg):
                    v = v.fields[st[1]]
                else:
                    raise Unsupported("field of %r" % (v,))
            elif st[0] == "downcast":
                if not isinstance(v, Adt):
                    raise Unsupported("downcast of %r" % (v,))
                nv = Adt(v.ty, v.var, v.payload)
                nv.cur_payload = v.payload.get(st[1])
                if nv.cur_payload is None:
                    raise Unsupported("downcast to variant %s without payload" % st[1])
                v = nv
            elif st[0] == "index":
                idx = env[int(st[1][1:])]
                if not isinstance(v, Arr):
                    raise Unsupported("index of %r" % (v,))
                r = v.elems[-1]
                for k in range(len(v.elems) - 2, -1, -1):
                    r = ite(idx.t == z3.BitVecVal(k, idx.w), v.elems[k], r)
                v = r
            elif st[0] == "cindex":
                v = v.elems[st[1]]
        return v

    def write_place(self, s, env, val):
        steps = self.parse_place(s)
        if len(steps) == 1:
            env[steps[0][1]] = val
            return
        if len(steps) == 2 and steps[1][0] == "field":
            base = env.get(steps[0][1])
            ty = self.fn.locals.get(steps[0][1], "")
            if base is None:
                n = len(split_top(ty[1:-1])) if ty.startswith("(") else steps[1][1] + 1
                base = Agg([None] * max(n, steps[1][1] + 1))
            nb = Agg(base.fields)
            nb.fields[steps[1][1]] = val
            env[steps[0][1]] = nb
            return
        raise Unsupported("write to place %r" % s)

    # ---- operands
    def operand(self, s, env):
        s = s.strip()
        if s.startswith("copy ") or s.startswith("move "):
            return self.read_place(s[5:], env)
        if s.startswith("const "):
            return self.const(s[6:].strip())
        raise Unsupported("operand %r" % s)

    def const(self, c):
        if c in ("true", "false"):
            return Bool(z3.BoolVal(c == "true"))
        m = re.fullmatch(r"(-?\d+)_(\w+)", c)
        if m and m.group(2) in INT_T:
            return mk_int(int(m.group(1)), m.group(2))
        if c in self.ctx.consts:
            return self.ctx.consts[c]()
        for k, v in self.ctx.consts.items():
            if c.endswith("::" + k) or k.endswith("::" + c):
                return v()
        raise Unsupported("constant %r" % c)

    # ---- rvalues
    def rvalue(self, s, env, dst_ty):
        s = s.strip()
        m = re.fullmatch(r"(.+) as (\w+) \((\w+)\)", s)
        if m and m.group(3) in ("IntToInt",) and m.group(2) in INT_T:
            return cast(self.operand(m.group(1), env), m.group(2))
        if s.startswith(("copy ", "move ", "const ")):
            return self.operand(s, env)
        m = re.fullmatch(r"discriminant\((.+)\)", s)
        if m:
            v = self.read_place(m.group(1), env)
            if isinstance(v, Enum):
                return Int(v.d, 64, True)
            if isinstance(v, Adt):
                return Int(v.var, 64, True)
            raise Unsupported("discriminant of %r" % (v,))
        if s.startswith("&"):
            inner = s[1:].strip()
            if inner.startswith("mut "):
                raise Unsupported("mutable borrow")
            return self.read_place(inner, env)
        m = re.fullmatch(r"(\w+)\((.+)\)", s)
        if m and m.group(1) in BINOPS | UNOPS | {"AddWithOverflow", "SubWithOverflow", "MulWithOverflow"}:
            args = [self.operand(a, env) for a in split_top(m.group(2))]
            return self.arith(m.group(1), args)
        # aggregates: tuple
        if s.startswith("(") and s.endswith(")"):
            return Agg([self.operand(a, env) for a in split_top(s[1:-1])])
        # enum / struct constructors
        m = re.fullmatch(r"([\w:<>, ]+?)(?:\((.*)\))?", s)
        if m:
            path = re.sub(r"::<[^>]*>", "", m.group(1)).strip()
            args = [self.operand(a, env) for a in split_top(m.group(2))] if m.group(2) else []
            segs = path.split("::")
            # Option-like
            if segs[-1] in ("Some", "None") and (len(segs) == 1 or segs[-2] == "Option"):
                if segs[-1] == "None":
                    return Adt("Option", z3.BitVecVal(0, 64), {})
                return Adt("Option", z3.BitVecVal(1, 64), {"Some": Agg(args)})
            # fieldless enum variant
            if len(segs) >= 2:
                k, variants = self.ctx.enum_of("::".join(segs[:-1]))
                if variants and segs[-1] in variants and not args:
                    return Enum(k, z3.BitVecVal(variants.index(segs[-1]), 64))
            # struct / newtype constructor
            if args:
                return Agg(args)
        raise Unsupported("rvalue %r" % s)

    @staticmethod
    def _top(s):
        return s

    def arith(self, op, a):
        x = a[0]
        y = a[1] if len(a) > 1 else None
        if isinstance(x, Enum):
            x = Int(x.d, 64, True)
        if isinstance(y, Enum):
            y = Int(y.d, 64, True)
        if op == "Not":
            if isinstance(x, Bool):
                return Bool(z3.Not(x.t))
            return Int(~x.t, x.w, x.signed)
        if op == "Neg":
            return Int(-x.t, x.w, x.signed)
        if isinstance(x, Bool):
            f = {"BitAnd": z3.And, "BitOr": z3.Or, "BitXor": z3.Xor, "Eq": lambda p, q: p == q, "Ne": lambda p, q: p != q}.get(op)
            if not f:
                raise Unsupported("bool op " + op)
            return Bool(f(x.t, y.t))
        w, sg = x.w, x.signed
        if op in ("Shl", "Shr", "ShlUnchecked", "ShrUnchecked"):
            sh = y.t
            if y.w < w:
                sh = z3.ZeroExt(w - y.w, sh)
            elif y.w > w:
                sh = z3.Extract(w - 1, 0, sh)
            sh = sh & z3.BitVecVal(w - 1, w)  # release semantics: shift amount is masked
            if op.startswith("Shl"):
                return Int(x.t << sh, w, sg)
            return Int((x.t >> sh) if sg else z3.LShR(x.t, sh), w, sg)
        if op in ("Add", "AddUnchecked"):
            return Int(x.t + y.t, w, sg)
        if op in ("Sub", "SubUnchecked"):
            return Int(x.t - y.t, w, sg)
        if op in ("Mul", "MulUnchecked"):
            return Int(x.t * y.t, w, sg)
        if op == "BitAnd":
            return Int(x.t & y.t, w, sg)
        if op == "BitOr":
            return Int(x.t | y.t, w, sg)
        if op == "BitXor":
            return Int(x.t ^ y.t, w, sg)
        cmpf = {"Lt": (z3.ULT, lambda p, q: p < q), "Le": (z3.ULE, lambda p, q: p <= q), "Gt": (z3.UGT, lambda p, q: p > q),
                "Ge": (z3.UGE, lambda p, q: p >= q)}
        if op in cmpf:
            return Bool(cmpf[op][1 if sg else 0](x.t, y.t))
        if op == "Eq":
            return Bool(x.t == y.t)
        if op == "Ne":
            return Bool(x.t != y.t)
        if op in ("AddWithOverflow", "SubWithOverflow", "MulWithOverflow"):
            ext = z3.SignExt if sg else z3.ZeroExt
            n = w if op != "MulWithOverflow" else w
            xe, ye = ext(n, x.t), ext(n, y.t)
            full = {"AddWithOverflow": xe + ye, "SubWithOverflow": xe - ye, "MulWithOverflow": xe * ye}[op]
            low = z3.Extract(w - 1, 0, full)
            back = ext(n, low)
            return Agg([Int(low, w, sg), Bool(back != full)])
        raise Unsupported("binop " + op)

    # ---- control
    def run(self, bb, env, pc, steps):
        if steps > 400:
            raise Unsupported("path too long (loop?) in " + self.fn.name)
        stmts = self.fn.blocks[bb]
        for st in stmts[:-1]:
            self.stmt(st, env)
        self.term(stmts[-1], env, pc, steps)

    def stmt(self, st, env):
        st = st.rstrip(";")
        if st.startswith(("StorageLive", "StorageDead", "nop", "FakeRead", "PlaceMention", "Retag", "AscribeUserType", "Coverage")):
            return
        m = re.match(r"(.+?) = (.+)$", st)
        if not m:
            raise Unsupported("statement %r" % st)
        lhs, rhs = m.group(1).strip(), m.group(2).strip()
        dst_ty = None
        lm = re.fullmatch(r"_(\d+)", lhs)
        if lm:
            dst_ty = self.fn.locals.get(int(lm.group(1)))
        val = self.rvalue(rhs, env, dst_ty)
        # a fieldless-enum typed local assigned from a cast keeps Int; fine
        self.write_place(lhs, env, val)

    def term(self, t, env, pc, steps):
        t = t.rstrip(";")
        ctx = self.ctx
        if t == "return":
            self.rets.append((pc, env.get(0)))
            return
        if t == "unreachable":
            ctx.panics.append((pc, "entered unreachable code", self.fn.name))
            return
        m = re.fullmatch(r"goto -> bb(\d+)", t)
        if m:
            return self.run(int(m.group(1)), env, pc, steps + 1)
        m = re.fullmatch(r"switchInt\((.+)\) -> \[(.+)\]", t)
        if m:
            v = self.operand(m.group(1), env)
            if isinstance(v, Bool):
                v = Int(z3.If(v.t, z3.BitVecVal(1, 8), z3.BitVecVal(0, 8)), 8, False)
            if isinstance(v, Enum):
                v = Int(v.d, 64, True)
            taken = []
            for arm in split_top(m.group(2)):
                k, target = arm.split(": bb")
                if k.strip() == "otherwise":
                    cond = z3.And([v.t != z3.BitVecVal(c, v.w) for c in taken]) if taken else z3.BoolVal(True)
                else:
                    c = int(k.strip())
                    taken.append(c)
                    cond = v.t == z3.BitVecVal(c, v.w)
                npc = z3.simplify(z3.And(pc, cond))
                if z3.is_false(npc):
                    continue
                self.run(int(target), dict(env), npc, steps + 1)
            return
        m = re.fullmatch(r"assert\((!?)(.+?), (\".*?\")(?:, .*)?\) -> \[success: bb(\d+), unwind .*\]", t)
        if m:
            c = self.operand(m.group(2), env).t
            if m.group(1):
                c = z3.Not(c)
            bad = z3.simplify(z3.And(pc, z3.Not(c)))
            if not z3.is_false(bad):
                ctx.panics.append((bad, m.group(3).strip('"'), self.fn.name))
            npc = z3.simplify(z3.And(pc, c))
            if z3.is_false(npc):
                return
            return self.run(int(m.group(4)), env, npc, steps + 1)
        # diverging call (panic)
        m = re.fullmatch(r"(.+?) = (.+?)\((.*)\) -> unwind .*", t)
        if m:
            ctx.panics.append((pc, "call to diverging %s" % m.group(2).strip(), self.fn.name))
            return
        m = re.fullmatch(r"(.+?) = (.+?)\((.*)\) -> \[return: bb(\d+), unwind .*\]", t)
        if m:
            lhs, callee, args_s, nxt = m.group(1).strip(), m.group(2).strip(), m.group(3), int(m.group(4))
            if re.search(r"Arguments::<.*>::from_str|Arguments::<.*>::new", callee):
                env2 = env
                return self.run(nxt, env2, pc, steps + 1)
            args = [self.operand(a, env) for a in split_top(args_s)] if args_s.strip() else []
            val = self.call(callee, args, pc)
            if val is None:
                return  # every path of the callee panicked
            self.write_place(lhs, env, val)
            return self.run(nxt, env, pc, steps + 1)
        raise Unsupported("terminator %r" % t)

    def call(self, callee, args, pc):
        ctx = self.ctx
        base = re.sub(r"::<[^>]*>", "", callee)
        for pat, f in ctx.intrinsics.items():
            if re.search(pat, base):
                return f(args)
        x = args[0] if args else None
        if re.search(r"num::<impl u\d+>::wrapping_mul$", callee):
            return Int(x.t * args[1].t, x.w, x.signed)
        if re.search(r"num::<impl [ui]\d+>::wrapping_add$", callee):
            return Int(x.t + args[1].t, x.w, x.signed)
        if re.search(r"num::<impl [ui]\d+>::wrapping_sub$", callee):
            return Int(x.t - args[1].t, x.w, x.signed)
        fn = ctx.find_fn(callee)
        if fn is None:
            raise Unsupported("call to %s (not in the dump, no model)" % callee)
        if ctx.depth > 12:
            raise Unsupported("call depth")
        ctx.depth += 1
        if fn.name not in ctx.calls:
            ctx.calls.append(fn.name)
        ex = Exec(ctx, fn, args, pc)
        ctx.depth -= 1
        if not ex.rets:
            return None
        val = ex.rets[-1][1]
        for c, v in reversed(ex.rets[:-1]):
            val = ite(c, v, val)
        return val


BINOPS = {"Add", "Sub", "Mul", "BitAnd", "BitOr", "BitXor", "Shl", "Shr", "Lt", "Le", "Gt", "Ge", "Eq", "Ne",
          "AddUnchecked", "SubUnchecked", "MulUnchecked", "ShlUnchecked", "ShrUnchecked"}
UNOPS = {"Not", "Neg"}


def pext_model(args):
    """_pext_u64(a, mask): gather the bits of a selected by mask into the low bits, in order."""
    a, m = args[0].t, args[1].t
    res = z3.BitVecVal(0, 64)
    cnt = z3.BitVecVal(0, 64)
    one = z3.BitVecVal(1, 64)
    for i in range(64):
        mi = z3.LShR(m, i) & one
        ai = z3.LShR(a, i) & one
        res = res | ((ai & mi) << cnt)
        cnt = cnt + mi
    return Int(res, 64, False)


def execute(ctx, fname, args):
    """Symbolically execute function `fname`; returns (merged return value or None, [(cond, msg, fn)])."""
    fn = ctx.find_fn(fname)
    if fn is None:
        raise Unsupported("function %s not found in dump" % fname)
    ctx.calls.append(fn.name)
    ctx.panics = []
    ex = Exec(ctx, fn, args, z3.BoolVal(True))
    if not ex.rets:
        return None, ctx.panics
    val = ex.rets[-1][1]
    for c, v in reversed(ex.rets[:-1]):
        val = ite(c, v, val)
    return val, ctx.panics


def enums_from_source(root):
    """Variant lists of the fieldless enums, read from the crate sources (declaration order = discriminant)."""
    import os
    out = {}
    for f, ty in [("file.rs", "File"), ("rank.rs", "Rank"), ("piece.rs", "Piece"), ("color.rs", "Color")]:
        txt = open(os.path.join(root, "types/src", f)).read()
        m = re.search(r"pub enum %s \{(.*?)\}" % ty, txt, re.S)
        body = re.sub(r"///.*", "", m.group(1))
        out[f[:-3] + "::" + ty] = [v.strip() for v in body.split(",") if v.strip()]
    txt = open(os.path.join(root, "types/src/square.rs")).read()
    m = re.search(r"define_square_with_docs! \{(.*?)\}", txt[txt.index("define_square_with_docs! {\n    A1"):], re.S)
    out["square::Square"] = [v.strip() for v in m.group(1).split(",") if v.strip()]
    return out
