//! C08 / C09 (parser side, field level): each private FEN field parser, reached
//! through the hook, on every valid UTF-8 string up to a stated length: accepted
//! exactly on the field's grammar, writes exactly the denoted value, never panics,
//! and an empty field is rejected. Whole-record parsing is outside the claim.

use crate::nd::Nd;
use crate::refm::{self, Pos, NONE};
use crate::sym::*;
use crate::util::sym_str;
use crate::vcover;
use cozy_chess::*;

fn as_str<'a>(b: &'a [u8], len: usize) -> Option<&'a str> {
    core::str::from_utf8(&b[..len]).ok()
}

fn one_king_each(p: &Pos) -> bool {
    (p.pc[refm::KING] & p.col[0]).count_ones() == 1 && (p.pc[refm::KING] & p.col[1]).count_ones() == 1
}

/// Side to move: exactly "w" or "b".
pub fn side<N: Nd>(n: &mut N) {
    let (b, len) = sym_str::<3, N>(n);
    let s = match as_str(&b, len) {
        Some(s) => s,
        None => return,
    };
    let p = sym_pos(n);
    let h0 = n.u64();
    let mut board = board_raw(&p, 0, 1, h0, 0, 0);
    let r = Board::verif_parse_field(&mut board, 1, s, false);
    let want = if len == 1 && b[0] == b'w' {
        Some(0)
    } else if len == 1 && b[0] == b'b' {
        Some(1)
    } else {
        None
    };
    assert!(r.is_ok() == want.is_some());
    if let Some(c) = want {
        let q = pos_of(&board);
        let mut e = p;
        e.stm = c;
        assert!(q.same(&e));
    }
    vcover!(len == 0, "empty field");
}

/// Castling field, both notations, on a board with arbitrary king squares.
pub fn castle<N: Nd>(n: &mut N, shredder: bool) {
    let (b, len) = sym_str::<5, N>(n);
    let s = match as_str(&b, len) {
        Some(s) => s,
        None => return,
    };
    let mut p = sym_pos(n);
    n.assume(one_king_each(&p));
    p.castle = [[NONE; 2]; 2];
    let mut board = board_raw(&p, 0, 1, n.u64(), 0, 0);
    let r = Board::verif_parse_field(&mut board, 2, s, shredder);
    // reference decoding of the field
    let mut want = [[NONE; 2]; 2];
    let mut ok = len > 0;
    if !(len == 1 && b[0] == b'-') {
        let mut i = 0;
        while i < 5 {
            if i < len && ok {
                let ch = b[i];
                let white = ch >= b'A' && ch <= b'Z';
                let low = if white { ch + 32 } else { ch };
                let c = if white { 0 } else { 1 };
                let kf = (p.king_bb(c).trailing_zeros() & 7) as u8;
                let (wing, f) = if shredder {
                    if low >= b'a' && low <= b'h' {
                        let f = low - b'a';
                        (if kf < f { 0 } else { 1 }, f)
                    } else {
                        ok = false;
                        (0, 0)
                    }
                } else if low == b'k' {
                    (0, 7)
                } else if low == b'q' {
                    (1, 0)
                } else {
                    ok = false;
                    (0, 0)
                };
                if ok {
                    if want[c][wing] != NONE {
                        ok = false; // duplicate
                    } else {
                        want[c][wing] = f;
                    }
                }
            }
            i += 1;
        }
    }
    assert!(r.is_ok() == ok);
    if ok {
        let q = pos_of(&board);
        assert!(refm::castle_same(&q.castle, &want));
        let mut e = p;
        e.castle = want;
        assert!(q.same(&e));
    }
    vcover!(ok && len == 4, "four rights");
    vcover!(!ok && len == 2 && b[0] == b[1], "duplicate right");
    vcover!(len == 0, "empty field");
}

/// En-passant field: "-" or a square on the mover's sixth rank.
pub fn ep<N: Nd>(n: &mut N) {
    let (b, len) = sym_str::<3, N>(n);
    let s = match as_str(&b, len) {
        Some(s) => s,
        None => return,
    };
    let mut p = sym_pos(n);
    p.ep = NONE;
    let mut board = board_raw(&p, 0, 1, n.u64(), 0, 0);
    let r = Board::verif_parse_field(&mut board, 3, s, false);
    let rank_ch = if p.stm == 0 { b'6' } else { b'3' };
    let want = if len == 1 && b[0] == b'-' {
        Some(NONE)
    } else if len == 2 && b[0] >= b'a' && b[0] <= b'h' && b[1] == rank_ch {
        Some(b[0] - b'a')
    } else {
        None
    };
    assert!(r.is_ok() == want.is_some());
    if let Some(f) = want {
        let q = pos_of(&board);
        let mut e = p;
        e.ep = f;
        assert!(q.same(&e));
    }
    vcover!(want.is_some() && want != Some(NONE), "a square is accepted");
    vcover!(len == 2 && b[1] >= b'1' && b[1] <= b'8' && want.is_none() && b[0] >= b'a' && b[0] <= b'h', "a square on the wrong rank");
}

/// Decimal field per Rust's unsigned `from_str`: optional '+', at least one digit.
fn decimal(b: &[u8], len: usize, max: u32) -> Option<u32> {
    let start = if len > 0 && b[0] == b'+' { 1 } else { 0 };
    if len <= start {
        return None;
    }
    let mut v: u32 = 0;
    let mut ok = true;
    let mut i = 0;
    while i < 6 {
        if i >= start && i < len {
            let ch = b[i];
            if ch >= b'0' && ch <= b'9' {
                v = v * 10 + (ch - b'0') as u32;
                if v > max {
                    ok = false;
                    v = max + 1;
                }
            } else {
                ok = false;
            }
        }
        i += 1;
    }
    if ok {
        Some(v)
    } else {
        None
    }
}

/// Clock fields on every string of at most 6 bytes.
pub fn clocks<N: Nd>(n: &mut N, full: bool) {
    let (b, len) = sym_str::<6, N>(n);
    let s = match as_str(&b, len) {
        Some(s) => s,
        None => return,
    };
    let p = sym_pos(n);
    let mut board = board_raw(&p, 0, 0, n.u64(), 0, 0);
    let r = Board::verif_parse_field(&mut board, if full { 5 } else { 4 }, s, false);
    if full {
        let want = match decimal(&b, len, 65535) {
            Some(v) if v >= 1 => Some(v as u16),
            _ => None,
        };
        assert!(r.is_ok() == want.is_some());
        if let Some(v) = want {
            assert!(board.fullmove_number() == v);
        }
        vcover!(want == Some(65535), "@fullmove largest full-move number");
    } else {
        let want = match decimal(&b, len, 255) {
            Some(v) if v <= 100 => Some(v as u8),
            _ => None,
        };
        assert!(r.is_ok() == want.is_some());
        if let Some(v) = want {
            assert!(board.halfmove_clock() == v);
        }
        vcover!(want == Some(100), "@halfmove half-move clock 100");
        vcover!(decimal(&b, len, 255) == Some(101), "@halfmove 101 is rejected");
    }
    assert!(pos_of(&board).same(&p));
}

/// Placement field on every string of at most `B` bytes: too short to denote
/// eight ranks of eight files, so it must be rejected (and must not panic).
pub fn placement_short<N: Nd, const B: usize>(n: &mut N) {
    let (b, len) = sym_str::<B, N>(n);
    let s = match as_str(&b, len) {
        Some(s) => s,
        None => return,
    };
    let p = Pos { pc: [0; 6], col: [0; 2], stm: 0, castle: [[NONE; 2]; 2], ep: NONE };
    let mut board = board_raw(&p, 0, 0, 0, 0, 0);
    let r = Board::verif_parse_field(&mut board, 0, s, false);
    assert!(r.is_err());
    vcover!(len == B, "full length");
}

crate::bproofs! {
    #[kani::unwind(9)]
    c08_side => side;
    #[kani::unwind(9)]
    c08_castle_fen => |n: &mut _| castle(n, false);
    #[kani::unwind(9)]
    c08_castle_shredder => |n: &mut _| castle(n, true);
    #[kani::unwind(9)]
    c08_ep => ep;
    #[kani::unwind(9)]
    c08_halfmove => |n: &mut _| clocks(n, false);
    #[kani::unwind(9)]
    c08_fullmove => |n: &mut _| clocks(n, true);
    #[kani::stub(core::slice::memchr::memrchr, crate::stubs::memrchr_def)]
    #[kani::stub(core::slice::memchr::memchr, crate::stubs::memchr_def)]
    c08_placement_2 => |n: &mut _| placement_short::<_, 2>(n);
    #[kani::stub(core::slice::memchr::memrchr, crate::stubs::memrchr_def)]
    #[kani::stub(core::slice::memchr::memchr, crate::stubs::memchr_def)]
    c08_placement_3 => |n: &mut _| placement_short::<_, 3>(n);
    #[kani::unwind(9)]
    c08_placement_5 => |n: &mut _| placement_short::<_, 5>(n);
}
