//! C10 / C11 (Kani part): the hash is the XOR of per-feature keys.
//!
//! Linearity: each real writer changes the hash by exactly the XOR of the
//! behavioural keys of the features it adds or removes, from an arbitrary raw
//! state. Together with the builder/step harnesses this gives
//! hash(position) = XOR of key(feature); the separation question about the keys
//! themselves is decided by z3 (lib/zobrist.py).

use crate::nd::Nd;
use crate::refm::NONE;
use crate::sym::*;
use crate::vcover;
use cozy_chess::*;

pub fn linearity<N: Nd>(n: &mut N) {
    let k = keys();
    let p = sym_pos(n);
    let h0 = n.u64();
    let mut b = board_raw(&p, n.u8(), n.u16(), h0, n.u64(), n.u64());
    let which = n.u8();
    n.assume(which < 4);
    let (c, pc, s, f, short) = (n.u8(), n.u8(), n.u8(), n.u8(), n.bool());
    n.assume(c < 2 && pc < 6 && s < 64 && f <= 8);
    match which {
        0 => {
            b.verif_xor_square(piece(pc), color(c), sq(s));
            assert!(b.hash() == h0 ^ k.piece[c as usize][pc as usize][s as usize]);
            let q = pos_of(&b);
            let bit = 1u64 << s;
            let mut i = 0;
            while i < 6 {
                assert!(q.pc[i] == p.pc[i] ^ if i == pc as usize { bit } else { 0 });
                i += 1;
            }
            assert!(q.col[c as usize] == p.col[c as usize] ^ bit);
            assert!(q.col[1 - c as usize] == p.col[1 - c as usize]);
            assert!(q.stm == p.stm && crate::refm::castle_same(&q.castle, &p.castle) && q.ep == p.ep);
        }
        1 => {
            let w = if short { 0 } else { 1 };
            let prev = p.castle[c as usize][w];
            b.verif_set_castle_right(color(c), short, opt_file(f));
            let mut want = h0;
            if prev < 8 {
                want ^= k.castle[c as usize][w][prev as usize];
            }
            if f < 8 {
                want ^= k.castle[c as usize][w][f as usize];
            }
            assert!(b.hash() == want);
            let q = pos_of(&b);
            let mut e = p;
            e.castle[c as usize][w] = if f < 8 { f } else { NONE };
            assert!(q.same(&e));
            vcover!(prev < 8 && f < 8 && prev != f, "replace one right by another");
        }
        2 => {
            let prev = p.ep;
            b.verif_set_en_passant(opt_file(f));
            let mut want = h0;
            if prev < 8 {
                want ^= k.ep[prev as usize];
            }
            if f < 8 {
                want ^= k.ep[f as usize];
            }
            assert!(b.hash() == want);
            let q = pos_of(&b);
            let mut e = p;
            e.ep = if f < 8 { f } else { NONE };
            assert!(q.same(&e));
        }
        _ => {
            b.verif_toggle_side_to_move();
            assert!(b.hash() == h0 ^ k.side);
            let q = pos_of(&b);
            let mut e = p;
            e.stm ^= 1;
            assert!(q.same(&e));
        }
    }
}

/// `hash_without_ep` strips exactly the en-passant key.
pub fn without_ep<N: Nd>(n: &mut N) {
    let k = keys();
    let p = sym_pos(n);
    let h0 = n.u64();
    let b = board_raw(&p, n.u8(), n.u16(), h0, n.u64(), n.u64());
    let want = if p.ep < 8 { h0 ^ k.ep[p.ep as usize] } else { h0 };
    assert!(b.hash_without_ep() == want);
    assert!(b.hash() == h0);
}

/// Wing-independence of castle keys as the implementation has it (documented
/// fact used by the z3 side: 2*8 castle keys, not 2*2*8).
pub fn castle_keys_by_file<N: Nd>(n: &mut N) {
    let k = keys();
    let c = n.u8();
    let f = n.u8();
    n.assume(c < 2 && f < 8);
    assert!(k.castle[c as usize][0][f as usize] == k.castle[c as usize][1][f as usize]);
}

/// Reference-only lemma: the hash difference of two positions is the XOR of the
/// keys of the features they differ in (for arbitrary key values).
pub fn delta_lemma<N: Nd>(n: &mut N) {
    let mut k = crate::refm::Keys { piece: [[[0; 64]; 6]; 2], castle: [[[0; 8]; 2]; 2], ep: [0; 8], side: n.u64() };
    for c in 0..2 {
        for p in 0..6 {
            for s in 0..64 {
                k.piece[c][p][s] = n.u64();
            }
        }
        for w in 0..2 {
            for f in 0..8 {
                k.castle[c][w][f] = n.u64();
            }
        }
    }
    for f in 0..8 {
        k.ep[f] = n.u64();
    }
    let a = sym_pos(n);
    let b = sym_pos(n);
    assert!(crate::refm::zobrist(&a, &k) ^ crate::refm::zobrist(&b, &k) == crate::refm::zobrist_delta(&a, &b, &k));
}

crate::proofs! {
    #[kani::unwind(66)]
    c10_delta_lemma => delta_lemma;
    #[kani::unwind(66)]
    c11_linearity => linearity;
    #[kani::unwind(66)]
    c10_without_ep => without_ep;
    #[kani::unwind(66)]
    c11_castle_keys_by_file => castle_keys_by_file;
}
