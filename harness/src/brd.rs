//! Board-level harnesses: C01 (per origin), C04, C13, C14 and the single-step
//! family C02/C03/C10. All quantify over every accepted board (no piece bound):
//! a raw symbolic board is built through the hook and `refm::accepts` is assumed
//! (the lemma "real validators == refm::accepts" is C06's).
//! Table lookups are replaced by formula stubs proved equal in C05.

use crate::nd::Nd;
use crate::refm::{self, bit, Pos, KING, NONE, PAWN};
use crate::sym::*;
use crate::vcover;
use cozy_chess::*;

/// Cube selector for the number of checkers: 0, 1, 2 (= two or more);
/// 3 = none and no en-passant file, 4 = none and an en-passant file (sub-cubes of 0
/// for the pawn generator, whose not-in-check instance is the largest query); 9 = any.
fn ck_cube<N: Nd>(n: &mut N, p: &Pos, ck: u8) -> u64 {
    let (c, _) = refm::checkers_and_pins(p, p.stm as usize);
    let k = c.count_ones();
    match ck {
        0 => n.assume(k == 0),
        1 => n.assume(k == 1),
        2 => n.assume(k >= 2),
        3 => n.assume(k == 0 && p.ep >= 8),
        4 => n.assume(k == 0 && p.ep < 8),
        _ => {}
    }
    c
}

/// Cube selector for the kind of the piece on the origin square:
/// 0..=5 own piece of that kind, 6 = no own piece there, 7 = any.
fn kind_cube<N: Nd>(n: &mut N, p: &Pos, f: u8, kind: u8) {
    let own = p.col[p.stm as usize] & bit(f) != 0;
    let k = refm::kind_at(p, bit(f));
    match kind {
        0..=5 => n.assume(own && k == kind as usize),
        6 => n.assume(!own),
        _ => {}
    }
}

/// Batch membership by the enumeration model proved for `PieceMoves` in C17.
fn in_batch(pm: &PieceMoves, f: u8, t: u8, pr: u8) -> bool {
    let on = (pm.to.0 >> t) & 1 != 0;
    let promo_sq = pm.piece == Piece::Pawn && ((refm::RANK_1 | refm::RANK_8) >> t) & 1 != 0;
    let shape = if promo_sq { pr >= 2 && pr <= 5 } else { pr == 0 };
    pm.from as u8 == f && on && shape
}

#[cfg(not(kani))]
fn describe<N: Nd>(n: &N, p: &Pos, half: u8, full: u16, f: u8, t: u8, pr: u8) {
    if n.native() {
        println!("witness: board \"{}\" move {}", fen(p, half, full), mv(f, t, pr));
    }
}

#[cfg(kani)]
#[inline(always)]
fn describe<N: Nd>(_n: &N, _p: &Pos, _half: u8, _full: u16, _f: u8, _t: u8, _pr: u8) {}

// ------------------------------------------------------------------ C01 / C16 per origin

/// Generation restricted to one origin square yields exactly the legal moves
/// from that square: every legal move in exactly one batch, nothing else, every
/// batch non-empty and about that origin, at most two batches (the second only
/// for an en-passant capture), listener never aborting => `false`.
pub fn c01_origin<N: Nd>(n: &mut N, kind: u8, ck: u8) {
    let (p, half, full) = sym_accepted(n);
    let (f, t, pr) = sym_move(n);
    kind_cube(n, &p, f, kind);
    ck_cube(n, &p, ck);
    describe(n, &p, half, full, f, t, pr);
    let b = board_of(&p, half, full, n.u64());
    let mut calls = 0u32;
    let mut count = 0u32;
    let mut shape_ok = true;
    let r = b.generate_moves_for(sq(f).bitboard(), |pm| {
        calls += 1;
        shape_ok &= !pm.is_empty() && pm.to.0 != 0 && pm.from as u8 == f;
        shape_ok &= p.pc[pm.piece as usize] & p.col[p.stm as usize] & bit(f) != 0;
        if in_batch(&pm, f, t, pr) {
            count += 1;
        }
        false
    });
    let legal = refm::legal(&p, f, t, pr);
    assert!(!r);
    assert!(shape_ok);
    assert!(count == legal as u32);
    assert!(calls <= 2);
    let ep_attacker = p.ep < 8 && refm::pawn_att(bit(f), p.stm as usize) & bit(refm::ep_square(&p)) != 0;
    assert!(calls < 2 || (kind_is(&p, f, PAWN) && ep_attacker));
    vcover!(legal, "@(pawn|knight|bishop|rook|queen)_c[0134]|king a legal move");
    vcover!(legal && p.col[p.stm as usize] & bit(t) != 0, "@king_c0 a legal castling move");
    vcover!(legal && pr != 0, "@pawn_c[013] a legal promotion");
    vcover!(legal && p.ep < 8 && t == refm::ep_square(&p) && kind_is(&p, f, PAWN), "@pawn_c[01] a legal en passant capture");
    vcover!(!legal && refm::pseudo_targets(&p, f) & bit(t) != 0 && p.col[p.stm as usize] & bit(f) != 0, "@(pawn|knight|bishop|rook|queen|king)_c pseudo-legal but illegal");
}

// ------------------------------------------------------------------ per-generator forms (quick tier)
//
// The public entry point `generate_moves_for` contains all thirteen generator
// instances (six kinds x in-check variants + king in double check); one query
// over it needs 8-12 GB. The quick tier therefore decides the same statement
// compositionally: (1) the dispatch layer, for every board value, mask and abort
// point (c16.rs, generators stubbed); (2) each real generator, reached through
// the hook, on a single-origin mask holding one of its pieces; (3) each real
// generator is silent on a mask holding none of its pieces; (4) in double check
// no non-king move is legal (reference-only lemma). (1)-(4) give exactly what
// `c01_origin` states about `generate_moves_for`.

/// (2): generator `kind` with `in_check = ck >= 1` on the single-origin mask {f}.
pub fn c01_gen<N: Nd>(n: &mut N, kind: u8, ck: u8) {
    let (p, half, full) = sym_accepted(n);
    let (f, t, pr) = sym_move(n);
    kind_cube(n, &p, f, kind);
    ck_cube(n, &p, ck);
    describe(n, &p, half, full, f, t, pr);
    let b = board_of(&p, half, full, n.u64());
    let mut calls = 0u32;
    let mut count = 0u32;
    let mut shape_ok = true;
    let r = b.verif_add_legals(kind, ck == 1 || ck == 2, sq(f).bitboard(), &mut |pm: PieceMoves| {
        calls += 1;
        shape_ok &= !pm.is_empty() && pm.to.0 != 0 && pm.from as u8 == f;
        shape_ok &= pm.piece as u8 == kind;
        if in_batch(&pm, f, t, pr) {
            count += 1;
        }
        false
    });
    let legal = refm::legal(&p, f, t, pr);
    assert!(!r);
    assert!(shape_ok);
    assert!(count == legal as u32);
    assert!(calls <= 2);
    let ep_attacker = p.ep < 8 && refm::pawn_att(bit(f), p.stm as usize) & bit(refm::ep_square(&p)) != 0;
    assert!(calls < 2 || (kind as usize == PAWN && ep_attacker));
    vcover!(legal, "@(pawn|knight|bishop|rook|queen)_c[0134]|king a legal move");
    vcover!(legal && p.col[p.stm as usize] & bit(t) != 0, "@king_c0 a legal castling move");
    vcover!(legal && pr != 0, "@pawn_c[013] a legal promotion");
    vcover!(legal && p.ep < 8 && t == refm::ep_square(&p), "@pawn_c[14] a legal en passant capture");
    vcover!(!legal && refm::pseudo_targets(&p, f) & bit(t) != 0, "pseudo-legal but illegal");
}

/// (2'): the same with TWO origins of the generator's kind in the mask: the loop's
/// second iteration behaves like its first (every move of either origin exactly once,
/// nothing else; at most two batches per origin).
pub fn c01_gen2<N: Nd>(n: &mut N, kind: u8, ck: u8) {
    let (p, half, full) = sym_accepted(n);
    let (f, t, pr) = sym_move(n);
    let g = n.u8();
    n.assume(g < 64 && g != f);
    kind_cube(n, &p, f, kind);
    kind_cube(n, &p, g, kind);
    ck_cube(n, &p, ck);
    describe(n, &p, half, full, f, t, pr);
    if n.native() {
        println!("witness: second origin {}", sq(g));
    }
    let b = board_of(&p, half, full, n.u64());
    let mask = bit(f) | bit(g);
    let mut calls = 0u32;
    let mut count = 0u32;
    let mut shape_ok = true;
    let r = b.verif_add_legals(kind, ck == 1 || ck == 2, BitBoard(mask), &mut |pm: PieceMoves| {
        calls += 1;
        shape_ok &= !pm.is_empty() && (mask >> (pm.from as u8)) & 1 != 0 && pm.piece as u8 == kind;
        if in_batch(&pm, f, t, pr) {
            count += 1;
        }
        false
    });
    let legal = refm::legal(&p, f, t, pr);
    assert!(!r);
    assert!(shape_ok);
    assert!(count == legal as u32);
    assert!(calls <= 4);
    vcover!(legal && calls >= 2, "both origins produce a batch");
}

/// (2''): the same with THREE origins of the generator's kind in the mask: the loop's third
/// iteration behaves like the first two (every move of the chosen origin exactly once, nothing
/// else, no batch about a square outside the mask; at most two batches per origin).
pub fn c01_gen3<N: Nd>(n: &mut N, kind: u8, ck: u8) {
    let (p, half, full) = sym_accepted(n);
    let (f, t, pr) = sym_move(n);
    let g = n.u8();
    let h = n.u8();
    n.assume(g < 64 && h < 64 && g != f && h != f && g != h);
    kind_cube(n, &p, f, kind);
    kind_cube(n, &p, g, kind);
    kind_cube(n, &p, h, kind);
    ck_cube(n, &p, ck);
    describe(n, &p, half, full, f, t, pr);
    if n.native() {
        println!("witness: second origin {}, third origin {}", sq(g), sq(h));
    }
    let b = board_of(&p, half, full, n.u64());
    let mask = bit(f) | bit(g) | bit(h);
    let mut calls = 0u32;
    let mut count = 0u32;
    let mut shape_ok = true;
    let r = b.verif_add_legals(kind, ck == 1 || ck == 2, BitBoard(mask), &mut |pm: PieceMoves| {
        calls += 1;
        shape_ok &= !pm.is_empty() && (mask >> (pm.from as u8)) & 1 != 0 && pm.piece as u8 == kind;
        if in_batch(&pm, f, t, pr) {
            count += 1;
        }
        false
    });
    let legal = refm::legal(&p, f, t, pr);
    assert!(!r);
    assert!(shape_ok);
    assert!(count == legal as u32);
    assert!(calls <= 6);
    vcover!(legal && calls >= 3, "all three origins produce a batch");
}

/// (2) for the abort contract: the listener answers true at call index `stop`.
pub fn c16_gen_abort<N: Nd>(n: &mut N, kind: u8, ck: u8) {
    let (p, half, full) = sym_accepted(n);
    let f = n.u8();
    n.assume(f < 64);
    kind_cube(n, &p, f, kind);
    ck_cube(n, &p, ck);
    let stop = n.u8();
    n.assume(stop < 2);
    describe(n, &p, half, full, f, f, 0);
    let b = board_of(&p, half, full, n.u64());
    let mut calls = 0u8;
    let r = b.verif_add_legals(kind, ck == 1 || ck == 2, sq(f).bitboard(), &mut |_pm: PieceMoves| {
        calls += 1;
        calls == stop + 1
    });
    assert!(calls <= stop + 1);
    assert!(r == (calls == stop + 1));
    vcover!(r && stop == 1, "@pawn_c4 abort at the second of two batches");
    vcover!(!r && calls == 1, "@(pawn|knight|bishop|rook|queen)_c[0134]|king one batch, no abort");
}

/// (3): a generator is silent on a mask that holds none of its pieces.
pub fn c16_silent<N: Nd>(n: &mut N, kind: u8, ck: u8) {
    let (p, half, full) = sym_accepted(n);
    ck_cube(n, &p, ck);
    let mask = n.u64();
    n.assume(mask & p.pc[kind as usize] & p.col[p.stm as usize] == 0);
    describe(n, &p, half, full, 0, 0, 0);
    let b = board_of(&p, half, full, n.u64());
    let mut calls = 0u8;
    let r = b.verif_add_legals(kind, ck == 1 || ck == 2, BitBoard(mask), &mut |_pm: PieceMoves| {
        calls += 1;
        false
    });
    assert!(!r && calls == 0);
    vcover!(mask != 0 && p.ep < 8, "@_c[014] non-empty mask with an en passant file");
}

/// (4): with two or more checkers only king moves are legal (reference-only).
pub fn double_check_ref_body<N: Nd>(n: &mut N) {
    let (p, _half, _full) = sym_accepted(n);
    let (f, t, pr) = sym_move(n);
    ck_cube(n, &p, 2);
    n.assume(p.king_bb(p.stm as usize) != bit(f));
    assert!(!refm::legal(&p, f, t, pr));
}

fn kind_is(p: &Pos, f: u8, k: usize) -> bool {
    p.pc[k] & p.col[p.stm as usize] & bit(f) != 0
}

/// Abort contract for one origin: when the listener returns true at call index
/// `stop`, generation returns true at once and makes no further call.
pub fn c16_origin_abort<N: Nd>(n: &mut N, kind: u8, ck: u8) {
    let (p, half, full) = sym_accepted(n);
    let f = n.u8();
    n.assume(f < 64);
    kind_cube(n, &p, f, kind);
    ck_cube(n, &p, ck);
    let stop = n.u8();
    n.assume(stop < 2);
    describe(n, &p, half, full, f, f, 0);
    let b = board_of(&p, half, full, n.u64());
    let mut calls = 0u8;
    let r = b.generate_moves_for(sq(f).bitboard(), |_pm| {
        calls += 1;
        calls == stop + 1
    });
    // the listener answers true exactly at call index `stop`:
    //  - generation returns true exactly when that call happened, and no call follows it;
    //  - it returns false exactly when the listener never answered true.
    assert!(calls <= stop + 1);
    assert!(r == (calls == stop + 1));
    vcover!(r && stop == 1, "@pawn_c4 abort at the second of two batches");
    vcover!(!r && calls == 1, "@(pawn|knight|bishop|rook|queen)_c[0134]|king one batch, no abort");
}

// ------------------------------------------------------------------ C04

/// `is_legal` equals the reference legality for every move value.
pub fn c04_vs_ref<N: Nd>(n: &mut N, kind: u8, ck: u8) {
    let (p, half, full) = sym_accepted(n);
    let (f, t, pr) = sym_move(n);
    kind_cube(n, &p, f, kind);
    ck_cube(n, &p, ck);
    describe(n, &p, half, full, f, t, pr);
    let b = board_of(&p, half, full, n.u64());
    let legal = refm::legal(&p, f, t, pr);
    assert!(b.is_legal(mv(f, t, pr)) == legal);
    vcover!(legal, "@(pawn|knight|bishop|rook|queen)_c[0134]|king a legal move");
    vcover!(legal && p.col[p.stm as usize] & bit(t) != 0, "@king_c0 a legal castling move");
    vcover!(!legal && pr == 6, "king promotion rejected");
}

/// `is_legal` equals "generation for the origin yields the move" (no oracle).
pub fn c04_vs_gen<N: Nd>(n: &mut N, kind: u8, ck: u8) {
    let (p, half, full) = sym_accepted(n);
    let (f, t, pr) = sym_move(n);
    kind_cube(n, &p, f, kind);
    ck_cube(n, &p, ck);
    describe(n, &p, half, full, f, t, pr);
    let b = board_of(&p, half, full, n.u64());
    let mut found = false;
    b.generate_moves_for(sq(f).bitboard(), |pm| {
        found |= in_batch(&pm, f, t, pr);
        false
    });
    assert!(b.is_legal(mv(f, t, pr)) == found);
    vcover!(found, "@(pawn|knight|bishop|rook|queen)_c[01]|king a generated move");
}

// ------------------------------------------------------------------ C14

/// Null move: refused exactly in check; otherwise only the turn passes, and all
/// derived fields equal the reference for the new position (closure included).
/// `a`: bound on enemy sliders aligned with the new mover's king (loop bound).
pub fn c14_null<N: Nd>(n: &mut N, stm: u8, a: u32) {
    let (p, half, full) = sym_accepted(n);
    n.assume(stm > 1 || p.stm == stm);
    // the pre-state hash is arbitrary; the assertion is about the change (side key, and the ep key if a file was set)
    let h = n.u64();
    let b = board_of(&p, half, full, h);
    let (ck, _) = refm::checkers_and_pins(&p, p.stm as usize);
    let np = refm::null_move(&p);
    if a < 16 {
        n.assume(aligned_sliders(&np, np.stm as usize).count_ones() <= a);
    }
    describe(n, &p, half, full, 0, 0, 0);
    match b.null_move() {
        None => assert!(ck != 0),
        Some(nb) => {
            assert!(ck == 0);
            assert!(pos_of(&nb).same(&np));
            let (nck, npin) = refm::checkers_and_pins(&np, np.stm as usize);
            assert!(nb.checkers().0 == nck);
            assert!(nb.pinned().0 == npin);
            let (nh, nf) = refm::clocks_after_null(&p, half, full);
            assert!(nb.halfmove_clock() == nh && nb.fullmove_number() == nf);
            assert!(nb.hash() == h ^ side_key() ^ if p.ep < 8 { ep_key(p.ep) } else { 0 });
            assert!(nb.hash_without_ep() == nb.hash());
            // closure: the result is again an accepted board
            assert!(refm::accepts(&np, nh, nf));
            vcover!(npin != 0, "a pin after the null move");
            vcover!(p.ep < 8, "en passant file cleared");
            vcover!(half == 100 && full == 65535, "both clocks saturated");
        }
    }
}

/// Enemy sliders standing on one of the eight lines of colour `c`'s king
/// (whatever stands in between): the trip count of the slider loops.
pub fn aligned_sliders(p: &Pos, c: usize) -> u64 {
    let k = p.king_bb(c);
    let e = p.col[c ^ 1];
    (refm::rook_att(k, 0) & e & (p.pc[refm::ROOK] | p.pc[refm::QUEEN]))
        | (refm::bishop_att(k, 0) & e & (p.pc[refm::BISHOP] | p.pc[refm::QUEEN]))
}

// ------------------------------------------------------------------ C13

/// The en-passant file matters to `same_position` exactly when a legal
/// en-passant capture exists; reflexivity.
pub fn c13_ep_effect<N: Nd>(n: &mut N, stm: u8, variant: u8) {
    let (p, half, full) = sym_accepted(n);
    n.assume(p.ep < 8);
    n.assume(stm > 1 || p.stm == stm);
    describe(n, &p, half, full, 0, 0, 0);
    let h = n.u64();
    let b = board_of(&p, half, full, h);
    // the same board with the file cleared: hash loses exactly the ep key (C10/C11)
    let mut q = p;
    q.ep = NONE;
    let (half2, full2) = (n.u8(), n.u16());
    n.assume(half2 <= 100 && full2 >= 1);
    let c = board_of(&q, half2, full2, h ^ ep_key(p.ep));
    let want = !refm::ep_capturable(&p);
    // one call per query (each call runs is_legal up to four times)
    match variant {
        0 => assert!(b.same_position(&c) == want),
        1 => assert!(c.same_position(&b) == want),
        _ => assert!(b.same_position(&b)),
    }
    vcover!(want && refm::pawn_att(bit(refm::ep_square(&p)), (p.stm ^ 1) as usize) & p.col[p.stm as usize] & p.pc[PAWN] != 0,
        "a capturing pawn exists but the capture is illegal");
    vcover!(want && refm::pawn_att(bit(refm::ep_square(&p)), (p.stm ^ 1) as usize) & p.col[p.stm as usize] & !p.pc[PAWN] != 0,
        "a non-pawn stands where a capturing pawn would stand");
    vcover!(!want, "a legal en passant capture exists");
}

/// Behavioural key of the feature "piece `kind` of colour `c` on square `s`"
/// (all symbolic): the hash of an empty board after the real `xor_square`.
fn piece_key(c: usize, kind: usize, s: u8) -> u64 {
    let mut e = Board::verif_from_raw([0; 6], [0; 2], Color::White, [CastleRights::EMPTY; 2], None, 0, 0, 0, 0, 1);
    e.verif_xor_square(piece(kind as u8), color(c as u8), sq(s));
    e.hash()
}

fn castle_key(c: usize, w: usize, f: u8) -> u64 {
    let mut e = Board::verif_from_raw([0; 6], [0; 2], Color::White, [CastleRights::EMPTY; 2], None, 0, 0, 0, 0, 1);
    e.verif_set_castle_right(color(c as u8), w == 0, Some(file(f)));
    e.hash()
}

fn side_key() -> u64 {
    let mut e = Board::verif_from_raw([0; 6], [0; 2], Color::White, [CastleRights::EMPTY; 2], None, 0, 0, 0, 0, 1);
    e.verif_toggle_side_to_move();
    e.hash()
}

/// XOR of the behavioural keys of the features in which `a` and `b` differ,
/// enumerated sparsely: at most four squares change in one move (asserted).
pub fn sparse_delta(a: &Pos, b: &Pos) -> u64 {
    let mut diff = 0u64;
    let mut i = 0;
    while i < 6 {
        diff |= (a.pc[i] & a.occ()) ^ (b.pc[i] & b.occ());
        i += 1;
    }
    diff |= (a.col[0] ^ b.col[0]) | (a.col[1] ^ b.col[1]);
    assert!(diff.count_ones() <= 4);
    let mut h = 0u64;
    let mut rest = diff;
    let mut k = 0;
    while k < 4 {
        if rest != 0 {
            let s = rest.trailing_zeros() as u8;
            let sb = bit(s);
            rest &= rest - 1;
            if a.occ() & sb != 0 {
                h ^= piece_key((a.col[1] & sb != 0) as usize, refm::kind_at(a, sb), s);
            }
            if b.occ() & sb != 0 {
                h ^= piece_key((b.col[1] & sb != 0) as usize, refm::kind_at(b, sb), s);
            }
        }
        k += 1;
    }
    let mut c = 0;
    while c < 2 {
        let mut w = 0;
        while w < 2 {
            let (fa, fb) = (a.castle[c][w], b.castle[c][w]);
            if fa != fb {
                if fa < 8 {
                    h ^= castle_key(c, w, fa);
                }
                if fb < 8 {
                    h ^= castle_key(c, w, fb);
                }
            }
            w += 1;
        }
        c += 1;
    }
    if a.ep != b.ep {
        if a.ep < 8 {
            h ^= ep_key(a.ep);
        }
        if b.ep < 8 {
            h ^= ep_key(b.ep);
        }
    }
    if a.stm != b.stm {
        h ^= side_key();
    }
    h
}

/// A non-castling move of a piece of (constant) kind `kind`: the mover leaves `f`
/// and the placed piece (the mover, or the promotion piece) appears on `t`; a
/// captured piece disappears from `t` (or from behind `t` for en passant); rights,
/// en-passant file and side change as the two positions say.
pub fn move_delta(a: &Pos, b: &Pos, f: u8, t: u8, pr: u8, kind: usize) -> u64 {
    let us = a.stm as usize;
    let them = us ^ 1;
    let placed = if pr != 0 { (pr - 1) as usize } else { kind };
    let mut h = piece_key(us, kind, f) ^ piece_key(us, placed, t);
    let is_ep = kind == PAWN && a.ep < 8 && t == refm::ep_square(a) && (f & 7) != (t & 7);
    let cap = if is_ep { t ^ 8 } else { t };
    if a.col[them] & bit(cap) != 0 {
        h ^= piece_key(them, refm::kind_at(a, bit(cap)), cap);
    }
    let mut c = 0;
    while c < 2 {
        let mut w = 0;
        while w < 2 {
            let (fa, fb) = (a.castle[c][w], b.castle[c][w]);
            if fa != fb {
                if fa < 8 {
                    h ^= castle_key(c, w, fa);
                }
                if fb < 8 {
                    h ^= castle_key(c, w, fb);
                }
            }
            w += 1;
        }
        c += 1;
    }
    if a.ep != b.ep {
        if a.ep < 8 {
            h ^= ep_key(a.ep);
        }
        if b.ep < 8 {
            h ^= ep_key(b.ep);
        }
    }
    h ^ side_key()
}

/// Castling: king and rook of the mover change squares, both of its rights go.
pub fn castle_delta(a: &Pos, b: &Pos, f: u8, t: u8) -> u64 {
    let us = a.stm as usize;
    let back: u8 = if us == 0 { 0 } else { 56 };
    let short = a.castle[us][0] == (t & 7);
    let kd = back + if short { 6 } else { 2 };
    let rd = back + if short { 5 } else { 3 };
    let mut h = piece_key(us, KING, f) ^ piece_key(us, KING, kd) ^ piece_key(us, refm::ROOK, t) ^ piece_key(us, refm::ROOK, rd);
    let mut w = 0;
    while w < 2 {
        if a.castle[us][w] < 8 {
            h ^= castle_key(us, w, a.castle[us][w]);
        }
        w += 1;
    }
    let _ = b;
    h ^ side_key() ^ if a.ep < 8 { ep_key(a.ep) } else { 0 }
}

/// Two boards that differ only in the en-passant file (both files accepted):
/// the same position exactly when neither file allows a legal capture.
pub fn two_files_body<N: Nd>(n: &mut N) {
    let (p, half, full) = sym_accepted(n);
    n.assume(p.ep < 8);
    let f2 = n.u8();
    n.assume(f2 < 8 && f2 != p.ep);
    let mut q = p;
    q.ep = f2;
    let (half2, full2) = (n.u8(), n.u16());
    n.assume(refm::accepts(&q, half2, full2));
    describe(n, &p, half, full, 0, 0, 0);
    if n.native() {
        println!("witness: second board \"{}\"", fen(&q, half2, full2));
    }
    let h = n.u64();
    let a = board_of(&p, half, full, h ^ ep_key(p.ep));
    let b = board_of(&q, half2, full2, h ^ ep_key(q.ep));
    let want = refm::same_position(&p, &q);
    assert!(a.same_position(&b) == want);
    vcover!(!want && refm::ep_capturable(&p) && refm::ep_capturable(&q), "both files capturable");
    vcover!(want, "neither file capturable");
}

/// The behavioural en-passant key of a (symbolic) file.
pub fn ep_key(f: u8) -> u64 {
    let mut k = 0u64;
    let mut j = 0u8;
    let e0 = Board::verif_from_raw([0; 6], [0; 2], Color::White, [CastleRights::EMPTY; 2], None, 0, 0, 0, 0, 1);
    while j < 8 {
        let mut e = e0.clone();
        e.verif_set_en_passant(Some(file(j)));
        k |= e.hash() & refm::mask(f == j);
        j += 1;
    }
    k
}

/// `same_position` on two arbitrary accepted boards equals reference identity.
/// Hashes are modelled as an arbitrary function of the position: equal cores
/// get equal hash-without-ep, different cores get unrelated hashes (C10).
pub fn c13_pair_body<N: Nd>(n: &mut N) {
    let (p, half, full) = sym_accepted(n);
    let (q, half2, full2) = sym_accepted(n);
    let h = n.u64();
    let h2 = n.u64();
    let core_eq = p.core_same(&q);
    let hp = h ^ if p.ep < 8 { ep_key(p.ep) } else { 0 };
    let hq = (if core_eq { h } else { h2 }) ^ if q.ep < 8 { ep_key(q.ep) } else { 0 };
    let a = board_of(&p, half, full, hp);
    let b = board_of(&q, half2, full2, hq);
    let want = refm::same_position(&p, &q);
    assert!(a.same_position(&b) == want);
    assert!(b.same_position(&a) == want);
    vcover!(want && p.ep != q.ep, "same position with different ep files");
    vcover!(!want && core_eq, "differ only by a capturable ep file");
}

// ------------------------------------------------------------------ C02 / C03 / C10: one step

pub const WANT_C02: u8 = 1;
pub const WANT_C03: u8 = 2;
pub const WANT_C10: u8 = 4;
pub const WANT_CLOSURE: u8 = 8;

/// Move-kind cubes for the step harness.
/// 0 pawn, 1 knight, 2 bishop, 3 rook, 4 queen, 5 king step, 6 castling, 7 any.
fn step_cube<N: Nd>(n: &mut N, p: &Pos, f: u8, t: u8, cube: u8) {
    let castle = p.col[p.stm as usize] & bit(t) != 0;
    let k = refm::kind_at(p, bit(f));
    match cube {
        0..=4 => n.assume(k == cube as usize),
        5 => n.assume(k == KING && !castle),
        6 => n.assume(castle),
        _ => {}
    }
}

/// One inductive step: play an arbitrary legal move on an arbitrary accepted
/// board; every field of the successor equals the reference function of the
/// successor position, which is again accepted.
/// `a`: bound on own sliders aligned with the enemy king after the move.
pub fn step_play<N: Nd>(n: &mut N, cube: u8, want: u8, a: u32) {
    let (p, half, full) = sym_accepted(n);
    let (f, t, pr) = sym_move(n);
    step_cube(n, &p, f, t, cube);
    n.assume(refm::legal(&p, f, t, pr));
    let np = refm::make_move(&p, f, t, pr);
    if a < 16 {
        n.assume(aligned_sliders(&np, np.stm as usize).count_ones() <= a);
    }
    describe(n, &p, half, full, f, t, pr);
    // the pre-state hash is arbitrary: the assertion is about the change
    let h0 = n.u64();
    let mut b = board_of(&p, half, full, h0);
    b.play_unchecked(mv(f, t, pr));
    let (nh, nf) = refm::clocks_after_move(&p, f, t, half, full);
    if want & WANT_C02 != 0 {
        let got = pos_of(&b);
        let mut i = 0;
        while i < 6 {
            assert!(got.pc[i] == np.pc[i]);
            i += 1;
        }
        assert!(got.col[0] == np.col[0] && got.col[1] == np.col[1]);
        assert!(got.stm == np.stm);
        assert!(refm::castle_same(&got.castle, &np.castle));
        assert!(got.ep == np.ep);
        assert!(b.halfmove_clock() == nh);
        assert!(b.fullmove_number() == nf);
    }
    if want & WANT_C03 != 0 {
        let (ck, pin) = refm::checkers_and_pins(&np, np.stm as usize);
        assert!(b.checkers().0 == ck);
        assert!(b.pinned().0 == pin);
        vcover!(ck.count_ones() == 2, "@c03_step_(pawn|knight|bishop|rook) double check");
        vcover!(pin != 0 && ck != 0, "@c03_step check and pin together");
    }
    if want & WANT_C10 != 0 {
        // hash(successor) = hash(pre-state) XOR the keys of exactly the features that differ
        let d = match cube {
            6 => castle_delta(&p, &np, f, t),
            0..=5 => move_delta(&p, &np, f, t, pr, cube as usize),
            _ => sparse_delta(&p, &np),
        };
        assert!(b.hash() == h0 ^ d);
        assert!(b.hash_without_ep() == b.hash() ^ if np.ep < 8 { ep_key(np.ep) } else { 0 });
    }
    if want & WANT_CLOSURE != 0 {
        assert!(refm::accepts(&np, nh, nf));
    }
    vcover!(pr != 0, "@step_pawn a promotion");
    vcover!(np.ep < 8, "@step_pawn a double push");
    vcover!(p.ep < 8 && t == refm::ep_square(&p) && refm::kind_at(&p, bit(f)) == PAWN, "@step_pawn an en passant capture");
    vcover!(!refm::castle_same(&p.castle, &np.castle), "@step_(rook|king|castle) castling rights change");
}

#[macro_export]
macro_rules! bproofs {
    ( $( $(#[$m:meta])* $name:ident => $body:expr ; )* ) => {
        $crate::proofs! { $(
            $(#[$m])*
            #[kani::stub(cozy_chess::get_rook_moves, crate::stubs::rook_moves)]
            #[kani::stub(cozy_chess::get_bishop_moves, crate::stubs::bishop_moves)]
            #[kani::stub(cozy_chess::get_rook_rays, crate::stubs::rook_rays)]
            #[kani::stub(cozy_chess::get_bishop_rays, crate::stubs::bishop_rays)]
            #[kani::stub(cozy_chess::get_between_rays, crate::stubs::between_rays)]
            #[kani::stub(cozy_chess::get_line_rays, crate::stubs::line_rays)]
            #[kani::stub(cozy_chess::get_knight_moves, crate::stubs::knight_moves)]
            #[kani::stub(cozy_chess::get_king_moves, crate::stubs::king_moves)]
            #[kani::stub(cozy_chess::get_pawn_attacks, crate::stubs::pawn_attacks)]
            #[kani::stub(cozy_chess::Square::try_index, crate::stubs::square_try_index)]
            #[kani::stub(cozy_chess::File::try_index, crate::stubs::file_try_index)]
            #[kani::stub(cozy_chess::Rank::try_index, crate::stubs::rank_try_index)]
            $name => $body;
        )* }
    };
}

bproofs! {
    c13_two_files => |n: &mut _| two_files_body(n);
    c01_gen3_pawn_c1 => |n: &mut _| c01_gen3(n, 0, 1);
    c01_gen3_pawn_c3 => |n: &mut _| c01_gen3(n, 0, 3);
    c01_gen3_pawn_c4 => |n: &mut _| c01_gen3(n, 0, 4);
    c01_gen3_knight_c0 => |n: &mut _| c01_gen3(n, 1, 0);
    c01_gen3_knight_c1 => |n: &mut _| c01_gen3(n, 1, 1);
    c01_gen3_bishop_c0 => |n: &mut _| c01_gen3(n, 2, 0);
    c01_gen3_bishop_c1 => |n: &mut _| c01_gen3(n, 2, 1);
    c01_gen3_rook_c0 => |n: &mut _| c01_gen3(n, 3, 0);
    c01_gen3_rook_c1 => |n: &mut _| c01_gen3(n, 3, 1);
    c01_gen3_queen_c0 => |n: &mut _| c01_gen3(n, 4, 0);
    c01_gen3_queen_c1 => |n: &mut _| c01_gen3(n, 4, 1);
    c01_gen2_pawn_c1 => |n: &mut _| c01_gen2(n, 0, 1);
    c01_gen2_pawn_c3 => |n: &mut _| c01_gen2(n, 0, 3);
    c01_gen2_pawn_c4 => |n: &mut _| c01_gen2(n, 0, 4);
    c01_gen2_knight_c0 => |n: &mut _| c01_gen2(n, 1, 0);
    c01_gen2_knight_c1 => |n: &mut _| c01_gen2(n, 1, 1);
    c01_gen2_bishop_c0 => |n: &mut _| c01_gen2(n, 2, 0);
    c01_gen2_bishop_c1 => |n: &mut _| c01_gen2(n, 2, 1);
    c01_gen2_rook_c0 => |n: &mut _| c01_gen2(n, 3, 0);
    c01_gen2_rook_c1 => |n: &mut _| c01_gen2(n, 3, 1);
    c01_gen2_queen_c0 => |n: &mut _| c01_gen2(n, 4, 0);
    c01_gen2_queen_c1 => |n: &mut _| c01_gen2(n, 4, 1);
    c01_gen_pawn_c3 => |n: &mut _| c01_gen(n, 0, 3);
    c16_gen_abort_pawn_c3 => |n: &mut _| c16_gen_abort(n, 0, 3);
    c16_silent_pawn_c3 => |n: &mut _| c16_silent(n, 0, 3);
    c01_gen_pawn_c4 => |n: &mut _| c01_gen(n, 0, 4);
    c16_gen_abort_pawn_c4 => |n: &mut _| c16_gen_abort(n, 0, 4);
    c16_silent_pawn_c4 => |n: &mut _| c16_silent(n, 0, 4);
    c01_gen_pawn_c0 => |n: &mut _| c01_gen(n, 0, 0);
    c16_gen_abort_pawn_c0 => |n: &mut _| c16_gen_abort(n, 0, 0);
    c16_silent_pawn_c0 => |n: &mut _| c16_silent(n, 0, 0);
    c01_gen_pawn_c1 => |n: &mut _| c01_gen(n, 0, 1);
    c16_gen_abort_pawn_c1 => |n: &mut _| c16_gen_abort(n, 0, 1);
    c16_silent_pawn_c1 => |n: &mut _| c16_silent(n, 0, 1);
    c01_gen_knight_c0 => |n: &mut _| c01_gen(n, 1, 0);
    c16_gen_abort_knight_c0 => |n: &mut _| c16_gen_abort(n, 1, 0);
    c16_silent_knight_c0 => |n: &mut _| c16_silent(n, 1, 0);
    c01_gen_knight_c1 => |n: &mut _| c01_gen(n, 1, 1);
    c16_gen_abort_knight_c1 => |n: &mut _| c16_gen_abort(n, 1, 1);
    c16_silent_knight_c1 => |n: &mut _| c16_silent(n, 1, 1);
    c01_gen_bishop_c0 => |n: &mut _| c01_gen(n, 2, 0);
    c16_gen_abort_bishop_c0 => |n: &mut _| c16_gen_abort(n, 2, 0);
    c16_silent_bishop_c0 => |n: &mut _| c16_silent(n, 2, 0);
    c01_gen_bishop_c1 => |n: &mut _| c01_gen(n, 2, 1);
    c16_gen_abort_bishop_c1 => |n: &mut _| c16_gen_abort(n, 2, 1);
    c16_silent_bishop_c1 => |n: &mut _| c16_silent(n, 2, 1);
    c01_gen_rook_c0 => |n: &mut _| c01_gen(n, 3, 0);
    c16_gen_abort_rook_c0 => |n: &mut _| c16_gen_abort(n, 3, 0);
    c16_silent_rook_c0 => |n: &mut _| c16_silent(n, 3, 0);
    c01_gen_rook_c1 => |n: &mut _| c01_gen(n, 3, 1);
    c16_gen_abort_rook_c1 => |n: &mut _| c16_gen_abort(n, 3, 1);
    c16_silent_rook_c1 => |n: &mut _| c16_silent(n, 3, 1);
    c01_gen_queen_c0 => |n: &mut _| c01_gen(n, 4, 0);
    c16_gen_abort_queen_c0 => |n: &mut _| c16_gen_abort(n, 4, 0);
    c16_silent_queen_c0 => |n: &mut _| c16_silent(n, 4, 0);
    c01_gen_queen_c1 => |n: &mut _| c01_gen(n, 4, 1);
    c16_gen_abort_queen_c1 => |n: &mut _| c16_gen_abort(n, 4, 1);
    c16_silent_queen_c1 => |n: &mut _| c16_silent(n, 4, 1);
    c01_gen_king_c0 => |n: &mut _| c01_gen(n, 5, 0);
    c16_gen_abort_king_c0 => |n: &mut _| c16_gen_abort(n, 5, 0);
    c16_silent_king_c0 => |n: &mut _| c16_silent(n, 5, 0);
    c01_gen_king_c1 => |n: &mut _| c01_gen(n, 5, 1);
    c16_gen_abort_king_c1 => |n: &mut _| c16_gen_abort(n, 5, 1);
    c16_silent_king_c1 => |n: &mut _| c16_silent(n, 5, 1);
    c01_gen_king_c2 => |n: &mut _| c01_gen(n, 5, 2);
    c16_gen_abort_king_c2 => |n: &mut _| c16_gen_abort(n, 5, 2);
    c16_silent_king_c2 => |n: &mut _| c16_silent(n, 5, 2);
    c01_double_check_ref => |n: &mut _| double_check_ref_body(n);
    c01_origin_pawn_c0 => |n: &mut _| c01_origin(n, 0, 0);
    c01_origin_pawn_c1 => |n: &mut _| c01_origin(n, 0, 1);
    c01_origin_pawn_c2 => |n: &mut _| c01_origin(n, 0, 2);
    c01_origin_knight_c0 => |n: &mut _| c01_origin(n, 1, 0);
    c01_origin_knight_c1 => |n: &mut _| c01_origin(n, 1, 1);
    c01_origin_knight_c2 => |n: &mut _| c01_origin(n, 1, 2);
    c01_origin_bishop_c0 => |n: &mut _| c01_origin(n, 2, 0);
    c01_origin_bishop_c1 => |n: &mut _| c01_origin(n, 2, 1);
    c01_origin_bishop_c2 => |n: &mut _| c01_origin(n, 2, 2);
    c01_origin_rook_c0 => |n: &mut _| c01_origin(n, 3, 0);
    c01_origin_rook_c1 => |n: &mut _| c01_origin(n, 3, 1);
    c01_origin_rook_c2 => |n: &mut _| c01_origin(n, 3, 2);
    c01_origin_queen_c0 => |n: &mut _| c01_origin(n, 4, 0);
    c01_origin_queen_c1 => |n: &mut _| c01_origin(n, 4, 1);
    c01_origin_queen_c2 => |n: &mut _| c01_origin(n, 4, 2);
    c01_origin_king_c0 => |n: &mut _| c01_origin(n, 5, 0);
    c01_origin_king_c1 => |n: &mut _| c01_origin(n, 5, 1);
    c01_origin_king_c2 => |n: &mut _| c01_origin(n, 5, 2);
    c01_origin_none_c0 => |n: &mut _| c01_origin(n, 6, 0);
    c01_origin_none_c1 => |n: &mut _| c01_origin(n, 6, 1);
    c01_origin_none_c2 => |n: &mut _| c01_origin(n, 6, 2);
    c04_vs_ref_pawn_c0 => |n: &mut _| c04_vs_ref(n, 0, 0);
    c04_vs_ref_pawn_c1 => |n: &mut _| c04_vs_ref(n, 0, 1);
    c04_vs_ref_pawn_c2 => |n: &mut _| c04_vs_ref(n, 0, 2);
    c04_vs_ref_knight_c0 => |n: &mut _| c04_vs_ref(n, 1, 0);
    c04_vs_ref_knight_c1 => |n: &mut _| c04_vs_ref(n, 1, 1);
    c04_vs_ref_knight_c2 => |n: &mut _| c04_vs_ref(n, 1, 2);
    c04_vs_ref_bishop_c0 => |n: &mut _| c04_vs_ref(n, 2, 0);
    c04_vs_ref_bishop_c1 => |n: &mut _| c04_vs_ref(n, 2, 1);
    c04_vs_ref_bishop_c2 => |n: &mut _| c04_vs_ref(n, 2, 2);
    c04_vs_ref_rook_c0 => |n: &mut _| c04_vs_ref(n, 3, 0);
    c04_vs_ref_rook_c1 => |n: &mut _| c04_vs_ref(n, 3, 1);
    c04_vs_ref_rook_c2 => |n: &mut _| c04_vs_ref(n, 3, 2);
    c04_vs_ref_queen_c0 => |n: &mut _| c04_vs_ref(n, 4, 0);
    c04_vs_ref_queen_c1 => |n: &mut _| c04_vs_ref(n, 4, 1);
    c04_vs_ref_queen_c2 => |n: &mut _| c04_vs_ref(n, 4, 2);
    c04_vs_ref_king_c0 => |n: &mut _| c04_vs_ref(n, 5, 0);
    c04_vs_ref_king_c1 => |n: &mut _| c04_vs_ref(n, 5, 1);
    c04_vs_ref_king_c2 => |n: &mut _| c04_vs_ref(n, 5, 2);
    c04_vs_ref_none_c0 => |n: &mut _| c04_vs_ref(n, 6, 0);
    c04_vs_ref_none_c1 => |n: &mut _| c04_vs_ref(n, 6, 1);
    c04_vs_ref_none_c2 => |n: &mut _| c04_vs_ref(n, 6, 2);
    c04_vs_gen_pawn_c0 => |n: &mut _| c04_vs_gen(n, 0, 0);
    c04_vs_gen_pawn_c1 => |n: &mut _| c04_vs_gen(n, 0, 1);
    c04_vs_gen_pawn_c2 => |n: &mut _| c04_vs_gen(n, 0, 2);
    c04_vs_gen_knight_c0 => |n: &mut _| c04_vs_gen(n, 1, 0);
    c04_vs_gen_knight_c1 => |n: &mut _| c04_vs_gen(n, 1, 1);
    c04_vs_gen_knight_c2 => |n: &mut _| c04_vs_gen(n, 1, 2);
    c04_vs_gen_bishop_c0 => |n: &mut _| c04_vs_gen(n, 2, 0);
    c04_vs_gen_bishop_c1 => |n: &mut _| c04_vs_gen(n, 2, 1);
    c04_vs_gen_bishop_c2 => |n: &mut _| c04_vs_gen(n, 2, 2);
    c04_vs_gen_rook_c0 => |n: &mut _| c04_vs_gen(n, 3, 0);
    c04_vs_gen_rook_c1 => |n: &mut _| c04_vs_gen(n, 3, 1);
    c04_vs_gen_rook_c2 => |n: &mut _| c04_vs_gen(n, 3, 2);
    c04_vs_gen_queen_c0 => |n: &mut _| c04_vs_gen(n, 4, 0);
    c04_vs_gen_queen_c1 => |n: &mut _| c04_vs_gen(n, 4, 1);
    c04_vs_gen_queen_c2 => |n: &mut _| c04_vs_gen(n, 4, 2);
    c04_vs_gen_king_c0 => |n: &mut _| c04_vs_gen(n, 5, 0);
    c04_vs_gen_king_c1 => |n: &mut _| c04_vs_gen(n, 5, 1);
    c04_vs_gen_king_c2 => |n: &mut _| c04_vs_gen(n, 5, 2);
    c04_vs_gen_none_c0 => |n: &mut _| c04_vs_gen(n, 6, 0);
    c04_vs_gen_none_c1 => |n: &mut _| c04_vs_gen(n, 6, 1);
    c04_vs_gen_none_c2 => |n: &mut _| c04_vs_gen(n, 6, 2);
    c16_abort_pawn_c0 => |n: &mut _| c16_origin_abort(n, 0, 0);
    c16_abort_pawn_c1 => |n: &mut _| c16_origin_abort(n, 0, 1);
    c16_abort_pawn_c2 => |n: &mut _| c16_origin_abort(n, 0, 2);
    c16_abort_knight_c0 => |n: &mut _| c16_origin_abort(n, 1, 0);
    c16_abort_knight_c1 => |n: &mut _| c16_origin_abort(n, 1, 1);
    c16_abort_knight_c2 => |n: &mut _| c16_origin_abort(n, 1, 2);
    c16_abort_bishop_c0 => |n: &mut _| c16_origin_abort(n, 2, 0);
    c16_abort_bishop_c1 => |n: &mut _| c16_origin_abort(n, 2, 1);
    c16_abort_bishop_c2 => |n: &mut _| c16_origin_abort(n, 2, 2);
    c16_abort_rook_c0 => |n: &mut _| c16_origin_abort(n, 3, 0);
    c16_abort_rook_c1 => |n: &mut _| c16_origin_abort(n, 3, 1);
    c16_abort_rook_c2 => |n: &mut _| c16_origin_abort(n, 3, 2);
    c16_abort_queen_c0 => |n: &mut _| c16_origin_abort(n, 4, 0);
    c16_abort_queen_c1 => |n: &mut _| c16_origin_abort(n, 4, 1);
    c16_abort_queen_c2 => |n: &mut _| c16_origin_abort(n, 4, 2);
    c16_abort_king_c0 => |n: &mut _| c16_origin_abort(n, 5, 0);
    c16_abort_king_c1 => |n: &mut _| c16_origin_abort(n, 5, 1);
    c16_abort_king_c2 => |n: &mut _| c16_origin_abort(n, 5, 2);
    c14_null_w_a2 => |n: &mut _| c14_null(n, 0, 2);
    c14_null_b_a2 => |n: &mut _| c14_null(n, 1, 2);
    c14_null_w_a4 => |n: &mut _| c14_null(n, 0, 4);
    c14_null_b_a4 => |n: &mut _| c14_null(n, 1, 4);
    c14_null_w_a8 => |n: &mut _| c14_null(n, 0, 8);
    c14_null_b_a8 => |n: &mut _| c14_null(n, 1, 8);
    c14_null_w_a16 => |n: &mut _| c14_null(n, 0, 16);
    c14_null_b_a16 => |n: &mut _| c14_null(n, 1, 16);
    c13_ep_effect_w => |n: &mut _| c13_ep_effect(n, 0, 0);
    c13_ep_effect_b => |n: &mut _| c13_ep_effect(n, 1, 0);
    c13_ep_sym_w => |n: &mut _| c13_ep_effect(n, 0, 1);
    c13_ep_sym_b => |n: &mut _| c13_ep_effect(n, 1, 1);
    c13_ep_refl_w => |n: &mut _| c13_ep_effect(n, 0, 2);
    c13_ep_refl_b => |n: &mut _| c13_ep_effect(n, 1, 2);
    c13_pair => |n: &mut _| c13_pair_body(n);
    c02_step_pawn_a2 => |n: &mut _| step_play(n, 0, WANT_C02 | WANT_CLOSURE, 2);
    c02_step_pawn_a16 => |n: &mut _| step_play(n, 0, WANT_C02 | WANT_CLOSURE, 16);
    c02_step_knight_a2 => |n: &mut _| step_play(n, 1, WANT_C02 | WANT_CLOSURE, 2);
    c02_step_knight_a16 => |n: &mut _| step_play(n, 1, WANT_C02 | WANT_CLOSURE, 16);
    c02_step_bishop_a2 => |n: &mut _| step_play(n, 2, WANT_C02 | WANT_CLOSURE, 2);
    c02_step_bishop_a16 => |n: &mut _| step_play(n, 2, WANT_C02 | WANT_CLOSURE, 16);
    c02_step_rook_a2 => |n: &mut _| step_play(n, 3, WANT_C02 | WANT_CLOSURE, 2);
    c02_step_rook_a16 => |n: &mut _| step_play(n, 3, WANT_C02 | WANT_CLOSURE, 16);
    c02_step_queen_a2 => |n: &mut _| step_play(n, 4, WANT_C02 | WANT_CLOSURE, 2);
    c02_step_queen_a16 => |n: &mut _| step_play(n, 4, WANT_C02 | WANT_CLOSURE, 16);
    c02_step_king_a2 => |n: &mut _| step_play(n, 5, WANT_C02 | WANT_CLOSURE, 2);
    c02_step_king_a16 => |n: &mut _| step_play(n, 5, WANT_C02 | WANT_CLOSURE, 16);
    c02_step_castle_a2 => |n: &mut _| step_play(n, 6, WANT_C02 | WANT_CLOSURE, 2);
    c02_step_castle_a16 => |n: &mut _| step_play(n, 6, WANT_C02 | WANT_CLOSURE, 16);
    c03_step_pawn_a2 => |n: &mut _| step_play(n, 0, WANT_C03, 2);
    c03_step_pawn_a16 => |n: &mut _| step_play(n, 0, WANT_C03, 16);
    c03_step_knight_a2 => |n: &mut _| step_play(n, 1, WANT_C03, 2);
    c03_step_knight_a16 => |n: &mut _| step_play(n, 1, WANT_C03, 16);
    c03_step_bishop_a2 => |n: &mut _| step_play(n, 2, WANT_C03, 2);
    c03_step_bishop_a16 => |n: &mut _| step_play(n, 2, WANT_C03, 16);
    c03_step_rook_a2 => |n: &mut _| step_play(n, 3, WANT_C03, 2);
    c03_step_rook_a16 => |n: &mut _| step_play(n, 3, WANT_C03, 16);
    c03_step_queen_a2 => |n: &mut _| step_play(n, 4, WANT_C03, 2);
    c03_step_queen_a16 => |n: &mut _| step_play(n, 4, WANT_C03, 16);
    c03_step_king_a2 => |n: &mut _| step_play(n, 5, WANT_C03, 2);
    c03_step_king_a16 => |n: &mut _| step_play(n, 5, WANT_C03, 16);
    c03_step_castle_a2 => |n: &mut _| step_play(n, 6, WANT_C03, 2);
    c03_step_castle_a16 => |n: &mut _| step_play(n, 6, WANT_C03, 16);
    c10_step_pawn_a2 => |n: &mut _| step_play(n, 0, WANT_C10, 2);
    c10_step_pawn_a16 => |n: &mut _| step_play(n, 0, WANT_C10, 16);
    c10_step_knight_a2 => |n: &mut _| step_play(n, 1, WANT_C10, 2);
    c10_step_knight_a16 => |n: &mut _| step_play(n, 1, WANT_C10, 16);
    c10_step_bishop_a2 => |n: &mut _| step_play(n, 2, WANT_C10, 2);
    c10_step_bishop_a16 => |n: &mut _| step_play(n, 2, WANT_C10, 16);
    c10_step_rook_a2 => |n: &mut _| step_play(n, 3, WANT_C10, 2);
    c10_step_rook_a16 => |n: &mut _| step_play(n, 3, WANT_C10, 16);
    c10_step_queen_a2 => |n: &mut _| step_play(n, 4, WANT_C10, 2);
    c10_step_queen_a16 => |n: &mut _| step_play(n, 4, WANT_C10, 16);
    c10_step_king_a2 => |n: &mut _| step_play(n, 5, WANT_C10, 2);
    c10_step_king_a16 => |n: &mut _| step_play(n, 5, WANT_C10, 16);
    c10_step_castle_a2 => |n: &mut _| step_play(n, 6, WANT_C10, 2);
    c10_step_castle_a16 => |n: &mut _| step_play(n, 6, WANT_C10, 16);
}
