//! C18 — bitboards behave as sets of squares.

use crate::nd::Nd;
use crate::vcover;
use crate::sym::*;
use cozy_chess::*;

/// Membership by definition: bit `s` of the word.
fn mem(x: u64, s: u8) -> bool {
    (x >> s) & 1 != 0
}

fn sym_sq<N: Nd>(n: &mut N) -> u8 {
    let s = n.u8();
    n.assume(s < 64);
    s
}

/// Binary and unary operators, plain and assigning, are the set operations.
pub fn ops<N: Nd>(n: &mut N) {
    let a = n.u64();
    let b = n.u64();
    let s = sym_sq(n);
    let (ba, bb, q) = (BitBoard(a), BitBoard(b), sq(s));
    assert!(ba.has(q) == mem(a, s));
    assert!((ba | bb).has(q) == (mem(a, s) || mem(b, s)));
    assert!((ba & bb).has(q) == (mem(a, s) && mem(b, s)));
    assert!((ba ^ bb).has(q) == (mem(a, s) != mem(b, s)));
    assert!((ba - bb).has(q) == (mem(a, s) && !mem(b, s)));
    assert!((!ba).has(q) == !mem(a, s));
    let mut x = ba;
    x |= bb;
    assert!(x == ba | bb);
    let mut x = ba;
    x &= bb;
    assert!(x == ba & bb);
    let mut x = ba;
    x ^= bb;
    assert!(x == ba ^ bb);
    let mut x = ba;
    x -= bb;
    assert!(x == ba - bb);
    // equality is extensional
    assert!((ba == bb) == (a == b));
    assert!(BitBoard::EMPTY.has(q) == false && BitBoard::FULL.has(q));
    assert!(BitBoard::from(q).0 == 1u64 << s && q.bitboard().0 == 1u64 << s);
}

/// Predicates and size agree with the element-wise definitions.
pub fn preds<N: Nd>(n: &mut N) {
    let a = n.u64();
    let b = n.u64();
    let s = sym_sq(n);
    let (ba, bb) = (BitBoard(a), BitBoard(b));
    // subset: no element of a outside b. `s` is an arbitrary square, so these
    // implications hold for every square; the converse uses a witness square.
    if ba.is_subset(bb) {
        assert!(!mem(a, s) || mem(b, s));
    } else {
        let w = (a & !b).trailing_zeros() as u8;
        assert!(w < 64 && mem(a, w) && !mem(b, w));
    }
    assert!(ba.is_superset(bb) == bb.is_subset(ba));
    if ba.is_disjoint(bb) {
        assert!(!(mem(a, s) && mem(b, s)));
    } else {
        let w = (a & b).trailing_zeros() as u8;
        assert!(w < 64 && mem(a, w) && mem(b, w));
    }
    if ba.is_empty() {
        assert!(!mem(a, s));
    } else {
        assert!(mem(a, a.trailing_zeros() as u8));
    }
    // size: count members one square at a time
    let mut c = 0u32;
    let mut i = 0u8;
    while i < 64 {
        c += mem(a, i) as u32;
        i += 1;
    }
    assert!(ba.len() == c);
    assert!(ba.is_empty() == (c == 0));
}

/// One step of square iteration from an arbitrary state.
pub fn iter_step<N: Nd>(n: &mut N) {
    let a = n.u64();
    let s = sym_sq(n);
    let mut it = BitBoard(a).iter();
    assert!(it.verif_raw().0 == a);
    // exact remaining length
    assert!(it.len() == a.count_ones() as usize);
    assert!(it.size_hint() == (a.count_ones() as usize, Some(a.count_ones() as usize)));
    let got = it.next();
    let rest = it.verif_raw().0;
    match got {
        None => assert!(a == 0 && rest == 0),
        Some(q) => {
            let g = q as u8;
            // a member, and the least one
            assert!(mem(a, g));
            assert!(!mem(a, s) || s >= g);
            // exactly that member is removed
            assert!(rest == a & !(1u64 << g));
            assert!(it.len() == a.count_ones() as usize - 1);
        }
    }
    assert!(BitBoard(a).next_square() == got);
    // into_iter is iter
    assert!(BitBoard(a).into_iter().verif_raw().0 == a);
}

/// Full iteration through the public API only, at most 8 members.
pub fn iter_full8<N: Nd>(n: &mut N) {
    let a = n.u64();
    n.assume(a.count_ones() <= 8);
    let mut seen = 0u64;
    let mut last = 0u8;
    let mut first = true;
    let mut cnt = 0;
    for q in BitBoard(a) {
        let g = q as u8;
        assert!(first || g > last);
        first = false;
        last = g;
        seen |= 1u64 << g;
        cnt += 1;
    }
    assert!(seen == a && cnt == a.count_ones());
}

/// Collecting squares builds their set (at most 4 squares, repeats allowed).
pub fn collect<N: Nd>(n: &mut N) {
    let k = n.u8();
    n.assume(k <= 4);
    let mut sqs = [Square::A1; 4];
    let mut expect = 0u64;
    let mut i = 0;
    while i < 4 {
        let s = sym_sq(n);
        sqs[i] = sq(s);
        if (i as u8) < k {
            expect |= 1u64 << s;
        }
        i += 1;
    }
    let got: BitBoard = sqs[..k as usize].iter().copied().collect();
    assert!(got.0 == expect);
}

/// One step of subset iteration (carry-rippler) from an arbitrary consistent
/// state, plus the base case.
pub fn subsets_step<N: Nd>(n: &mut N) {
    let set = n.u64();
    let cur = n.u64();
    let x = n.u64();
    n.assume(cur & !set == 0);
    // base case: iteration starts at the empty subset, not finished
    let (s0, c0, f0) = BitBoard(set).iter_subsets().verif_raw();
    assert!(s0.0 == set && c0.0 == 0 && !f0);
    // step from (set, cur, not finished)
    let mut it = BitBoardSubsetIter::verif_from_raw(BitBoard(set), BitBoard(cur), false);
    let got = it.next();
    assert!(got == Some(BitBoard(cur)));
    let (s1, nxt, fin) = it.verif_raw();
    assert!(s1.0 == set);
    if cur == set {
        // the full set is the numerically largest subset: iteration ends
        assert!(fin);
    } else {
        assert!(!fin);
        assert!(nxt.0 & !set == 0);
        assert!(nxt.0 > cur);
        // no subset lies strictly between: x is an arbitrary word
        assert!(!(x & !set == 0 && x > cur && x < nxt.0));
    }
    // a finished iterator yields nothing
    let mut done = BitBoardSubsetIter::verif_from_raw(BitBoard(set), BitBoard(cur), true);
    assert!(done.next().is_none());
    vcover!(cur != set && cur != 0, "interior step");
}

/// Full subset iteration through the public API, sets of at most 3 squares.
pub fn subsets_full3<N: Nd>(n: &mut N) {
    let set = n.u64();
    let x = n.u64();
    n.assume(set.count_ones() <= 3);
    let mut cnt = 0u32;
    let mut hits = 0u32;
    let mut last = 0u64;
    for sub in BitBoard(set).iter_subsets() {
        assert!(sub.0 & !set == 0);
        assert!(cnt == 0 || sub.0 > last);
        last = sub.0;
        if sub.0 == x {
            hits += 1;
        }
        cnt += 1;
    }
    assert!(cnt == 1 << set.count_ones());
    assert!(hits == (x & !set == 0) as u32);
}

/// Rank and file flips: involutions that move each member to its mirror square.
pub fn flips<N: Nd>(n: &mut N) {
    let a = n.u64();
    let s = sym_sq(n);
    let ba = BitBoard(a);
    assert!(ba.flip_ranks().flip_ranks() == ba);
    assert!(ba.flip_files().flip_files() == ba);
    // mirror squares by coordinate arithmetic
    let (f, r) = (s & 7, s >> 3);
    let mr = (7 - r) * 8 + f;
    let mf = r * 8 + (7 - f);
    assert!(ba.flip_ranks().has(sq(mr)) == mem(a, s));
    assert!(ba.flip_files().has(sq(mf)) == mem(a, s));
    assert!(sq(s).flip_rank() as u8 == mr && sq(s).flip_file() as u8 == mf);
    assert!(ba.flip_ranks().len() == ba.len() && ba.flip_files().len() == ba.len());
}

/// File / rank / named-constant bitboards equal their coordinate definitions.
pub fn consts<N: Nd>(n: &mut N) {
    let s = sym_sq(n);
    let i = n.u8();
    n.assume(i < 8);
    let (f, r) = (s & 7, s >> 3);
    assert!(file(i).bitboard().has(sq(s)) == (f == i));
    assert!(rank(i).bitboard().has(sq(s)) == (r == i));
    assert!(BitBoard::from(file(i)) == file(i).bitboard() && BitBoard::from(rank(i)) == rank(i).bitboard());
    let edge = f == 0 || f == 7 || r == 0 || r == 7;
    assert!(BitBoard::EDGES.has(sq(s)) == edge);
    assert!(BitBoard::CORNERS.has(sq(s)) == ((f == 0 || f == 7) && (r == 0 || r == 7)));
    assert!(BitBoard::DARK_SQUARES.has(sq(s)) == ((f + r) % 2 == 0));
    assert!(BitBoard::LIGHT_SQUARES.has(sq(s)) == ((f + r) % 2 == 1));
    let adj = (i > 0 && f == i - 1) || (i < 7 && f == i + 1);
    assert!(file(i).adjacent().has(sq(s)) == adj);
}

crate::proofs! {
    c18_ops => ops;
    #[kani::unwind(65)]
    c18_preds => preds;
    c18_iter_step => iter_step;
    #[kani::unwind(10)]
    c18_iter_full8 => iter_full8;
    #[kani::unwind(6)]
    c18_collect => collect;
    c18_subsets_step => subsets_step;
    #[kani::unwind(10)]
    c18_subsets_full3 => subsets_full3;
    c18_flips => flips;
    c18_consts => consts;
}
