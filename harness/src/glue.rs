//! Glue-level harnesses for C12, C15 and C16: the public wrappers are checked on
//! arbitrary (not even valid) boards with the functions they delegate to replaced
//! by stubs that return arbitrary results. Whatever those functions compute, the
//! wrapper's own logic is then shown correct for every input; the delegated
//! functions are covered by C01/C02/C04.

use crate::nd::Nd;
use crate::sym::*;
use crate::vcover;
use cozy_chess::*;

static mut LEGAL_ANS: bool = false;
static mut PLAYED: u32 = 0;
static mut GEN_ANS: bool = false;

pub fn stub_is_legal(_b: &Board, _mv: Move) -> bool {
    unsafe { LEGAL_ANS }
}

/// A deterministic, recognisable mutation depending on the move.
pub fn stub_play_unchecked(b: &mut Board, mv: Move) {
    unsafe {
        PLAYED += 1;
    }
    b.set_fullmove_number(1 + (mv.from as u16) * 64 + mv.to as u16);
    b.set_halfmove_clock(match mv.promotion {
        None => 0,
        Some(p) => 1 + p as u8,
    });
}

pub fn stub_generate_moves<F: FnMut(PieceMoves) -> bool>(_b: &Board, _listener: F) -> bool {
    unsafe { GEN_ANS }
}

fn any_board<N: Nd>(n: &mut N) -> Board {
    let p = sym_pos(n);
    let half = n.u8();
    let full = n.u16();
    n.assume(half <= 100 && full >= 1);
    board_raw(&p, half, full, n.u64(), n.u64(), n.u64())
}

/// An accepted board, any move value, and the reference legality of that move
/// (which is what the stubbed `is_legal` answers: C04 ties the real one to it, and
/// a native replay, where the real `is_legal` runs, follows the same path).
fn accepted_with_move<N: Nd>(n: &mut N) -> (Board, u8, u8, u8, bool) {
    let (p, half, full) = sym_accepted(n);
    let (f, t, pr) = sym_move(n);
    let ans = crate::refm::legal(&p, f, t, pr);
    if n.native() {
        println!("witness: board \"{}\" move {} (reference legality {})", fen(&p, half, full), mv(f, t, pr), ans);
    }
    let k = if n.native() { Some(keys()) } else { None };
    let h = match &k {
        Some(k) => crate::refm::zobrist(&p, k),
        None => n.u64(),
    };
    (board_of(&p, half, full, h), f, t, pr, ans)
}

/// try_play succeeds exactly when is_legal says so; on failure the board is
/// untouched, on success it equals unchecked play of the same move.
pub fn try_play_body<N: Nd>(n: &mut N) {
    let (b, f, t, pr, ans) = accepted_with_move(n);
    let m = mv(f, t, pr);
    unsafe {
        LEGAL_ANS = ans;
        PLAYED = 0;
    }
    let mut b2 = b.clone();
    let r = b2.try_play(m);
    assert!(r.is_ok() == ans);
    if ans {
        #[cfg(kani)]
        assert!(unsafe { PLAYED } == 1);
        let mut b3 = b.clone();
        b3.play_unchecked(m);
        assert!(b2 == b3);
    } else {
        #[cfg(kani)]
        assert!(unsafe { PLAYED } == 0);
        assert!(b2 == b);
        assert!(pos_of(&b2).same(&pos_of(&b)));
        assert!(b2.hash() == b.hash() && b2.checkers() == b.checkers() && b2.pinned() == b.pinned());
        assert!(b2.halfmove_clock() == b.halfmove_clock() && b2.fullmove_number() == b.fullmove_number());
    }
}

/// play does not panic on a legal move and then equals unchecked play.
pub fn play_legal_body<N: Nd>(n: &mut N) {
    let (b, f, t, pr, ans) = accepted_with_move(n);
    n.assume(ans);
    let m = mv(f, t, pr);
    unsafe {
        LEGAL_ANS = true;
        PLAYED = 0;
    }
    let mut b2 = b.clone();
    b2.play(m);
    let mut b3 = b.clone();
    b3.play_unchecked(m);
    assert!(b2 == b3);
}

/// play panics on every illegal move: the statement after it is unreachable.
pub fn play_illegal_body<N: Nd>(n: &mut N) {
    let (b, f, t, pr, ans) = accepted_with_move(n);
    n.assume(!ans);
    let m = mv(f, t, pr);
    unsafe {
        LEGAL_ANS = false;
    }
    let mut b2 = b.clone();
    b2.play(m);
    vcover!(true, "!play returned although the move was illegal");
}

/// status() as a function of (a legal move exists, clock, in check).
#[cfg(not(kani))]
pub fn status_body<N: Nd>(_n: &mut N) {
    // native confirmation of a solver-found glue failure: the real status() against the table computed from the real
    // generator on a battery of mates, stalemates and ordinary positions with the clock at 0, 99 and 100
    let fens = [
        "8/8/2p5/3b1K1k/4p3/4Pp1R/5P2/8 b - - 0 113", "7k/5Q2/6K1/8/8/8/8/8 b - - 0 1", "6rk/5Npp/8/8/8/8/8/6K1 b - - 0 1",
        "rnbqkbnr/pppppppp/8/8/8/8/PPPPPPPP/RNBQKBNR w KQkq - 0 1", "4k3/8/8/8/8/8/8/R3K2R w KQ - 0 1", "R3k3/8/4K3/8/8/8/8/8 b - - 0 1",
        "k7/2Q5/1K6/8/8/8/8/8 b - - 0 1", "4k3/8/8/8/8/8/4r3/4K3 w - - 0 80", "4k3/8/8/8/8/2n5/8/R3K3 w Q - 0 9",
        "3rk3/8/8/8/8/8/8/3K4 w - - 0 1",
    ];
    for f in fens {
        for clock in [0u8, 99, 100] {
            let mut b: Board = f.parse().unwrap();
            b.set_halfmove_clock(clock);
            let has_move = b.generate_moves(|_| true);
            let in_check = !b.checkers().is_empty();
            let want = if !has_move {
                if in_check { GameStatus::Won } else { GameStatus::Drawn }
            } else if clock >= 100 {
                GameStatus::Drawn
            } else {
                GameStatus::Ongoing
            };
            println!("witness: board \"{}\" status {:?} expected {:?}", b, b.status(), want);
            assert!(b.status() == want);
        }
    }
}

#[cfg(kani)]
pub fn status_body<N: Nd>(n: &mut N) {
    let b = any_board(n);
    let has_move = n.bool();
    unsafe {
        GEN_ANS = has_move;
    }
    let in_check = b.checkers().0 != 0;
    let want = if !has_move {
        if in_check {
            GameStatus::Won
        } else {
            GameStatus::Drawn
        }
    } else if b.halfmove_clock() >= 100 {
        GameStatus::Drawn
    } else {
        GameStatus::Ongoing
    };
    assert!(b.status() == want);
    vcover!(!has_move && in_check && b.halfmove_clock() == 100, "checkmate with the clock at 100");
    vcover!(has_move && b.halfmove_clock() == 99, "clock 99 with a move");
}

crate::bproofs! {
    #[kani::unwind(9)]
    #[kani::stub(cozy_chess::Board::is_legal, crate::glue::stub_is_legal)]
    #[kani::stub(cozy_chess::Board::play_unchecked, crate::glue::stub_play_unchecked)]
    c15_try_play => try_play_body;
    #[kani::unwind(9)]
    #[kani::stub(cozy_chess::Board::is_legal, crate::glue::stub_is_legal)]
    #[kani::stub(cozy_chess::Board::play_unchecked, crate::glue::stub_play_unchecked)]
    c15_play_legal => play_legal_body;
    #[kani::unwind(9)]
    #[kani::should_panic]
    #[kani::stub(cozy_chess::Board::is_legal, crate::glue::stub_is_legal)]
    #[kani::stub(cozy_chess::Board::play_unchecked, crate::glue::stub_play_unchecked)]
    c15_play_illegal => play_illegal_body;
    #[kani::unwind(9)]
    #[kani::stub(cozy_chess::Board::generate_moves, crate::glue::stub_generate_moves)]
    c12_status => status_body;
}
