//! Formula stubs for the table lookups. Each is proved equal to the function it
//! replaces for every argument by the C05 harnesses; they are installed with
//! `#[kani::stub]` in the board-level harnesses to keep the SAT encoding small.

use crate::refm;
use cozy_chess::*;

pub fn rook_moves(square: Square, blockers: BitBoard) -> BitBoard {
    BitBoard(refm::rook_att(refm::bit(square as u8), blockers.0))
}

pub fn bishop_moves(square: Square, blockers: BitBoard) -> BitBoard {
    BitBoard(refm::bishop_att(refm::bit(square as u8), blockers.0))
}

pub fn rook_rays(square: Square) -> BitBoard {
    BitBoard(refm::rook_att(refm::bit(square as u8), 0))
}

pub fn bishop_rays(square: Square) -> BitBoard {
    BitBoard(refm::bishop_att(refm::bit(square as u8), 0))
}

pub fn between_rays(from: Square, to: Square) -> BitBoard {
    BitBoard(refm::between(from as u8, to as u8))
}

pub fn line_rays(from: Square, to: Square) -> BitBoard {
    BitBoard(refm::line(from as u8, to as u8))
}

pub fn knight_moves(square: Square) -> BitBoard {
    BitBoard(refm::knight_att(refm::bit(square as u8)))
}

pub fn king_moves(square: Square) -> BitBoard {
    BitBoard(refm::king_att(refm::bit(square as u8)))
}

pub fn pawn_attacks(square: Square, color: Color) -> BitBoard {
    BitBoard(refm::pawn_att(refm::bit(square as u8), color as usize))
}

// Index -> enum conversions: the macro-generated `try_index` is a 64-arm (8-arm)
// match, which dominates symbolic execution because every square produced by a
// bitboard iterator goes through it. The stubs below return the same values
// (proved for every index in c19_coords) through a single discriminant write.

pub fn square_try_index(index: usize) -> Option<Square> {
    if index < 64 {
        Some(unsafe { core::mem::transmute::<u8, Square>(index as u8) })
    } else {
        None
    }
}

pub fn file_try_index(index: usize) -> Option<File> {
    if index < 8 {
        Some(unsafe { core::mem::transmute::<u8, File>(index as u8) })
    } else {
        None
    }
}

pub fn rank_try_index(index: usize) -> Option<Rank> {
    if index < 8 {
        Some(unsafe { core::mem::transmute::<u8, Rank>(index as u8) })
    } else {
        None
    }
}

/// `core::slice::memchr::memrchr` / `memchr` by their definitions (last / first index of
/// a byte). The library versions branch on pointer alignment, which the model checker
/// treats as unknown; the definition is what they compute (environment stub, trusted).
pub fn memrchr_def(x: u8, text: &[u8]) -> Option<usize> {
    let mut i = text.len();
    while i > 0 {
        i -= 1;
        if text[i] == x {
            return Some(i);
        }
    }
    None
}

pub fn memchr_def(x: u8, text: &[u8]) -> Option<usize> {
    let mut i = 0;
    while i < text.len() {
        if text[i] == x {
            return Some(i);
        }
        i += 1;
    }
    None
}
