//! Source of nondeterministic values: `kani::any()` under Kani, a recorded
//! byte stream when a solver counterexample is replayed natively.

pub trait Nd {
    fn u8(&mut self) -> u8;
    fn u16(&mut self) -> u16;
    fn u32(&mut self) -> u32;
    fn u64(&mut self) -> u64;
    fn bool(&mut self) -> bool;
    fn assume(&mut self, c: bool);
    /// True when replaying natively (bodies may then print the decoded witness).
    fn native(&self) -> bool {
        false
    }
    fn i8(&mut self) -> i8 {
        self.u8() as i8
    }
    fn usize(&mut self) -> usize {
        self.u64() as usize
    }
}

#[cfg(kani)]
pub struct KaniNd;

#[cfg(kani)]
impl Nd for KaniNd {
    #[inline(always)]
    fn u8(&mut self) -> u8 {
        kani::any()
    }
    #[inline(always)]
    fn u16(&mut self) -> u16 {
        kani::any()
    }
    #[inline(always)]
    fn u32(&mut self) -> u32 {
        kani::any()
    }
    #[inline(always)]
    fn u64(&mut self) -> u64 {
        kani::any()
    }
    #[inline(always)]
    fn bool(&mut self) -> bool {
        kani::any()
    }
    #[inline(always)]
    fn assume(&mut self, c: bool) {
        kani::assume(c)
    }
}

/// Marker payload: a replayed witness violated an assumption (invalid witness).
pub struct AssumeFailed;

/// Replays the byte vectors printed by Kani's concrete playback, in call order.
pub struct Recorded {
    pub vals: Vec<Vec<u8>>,
    pub next: usize,
}

impl Recorded {
    pub fn new(vals: Vec<Vec<u8>>) -> Self {
        Recorded { vals, next: 0 }
    }
    fn take(&mut self, n: usize) -> u64 {
        let v = self.vals.get(self.next).cloned().unwrap_or_default();
        self.next += 1;
        let mut x = 0u64;
        for i in 0..n.min(v.len()) {
            x |= (v[i] as u64) << (8 * i);
        }
        x
    }
}

impl Nd for Recorded {
    fn u8(&mut self) -> u8 {
        self.take(1) as u8
    }
    fn u16(&mut self) -> u16 {
        self.take(2) as u16
    }
    fn u32(&mut self) -> u32 {
        self.take(4) as u32
    }
    fn u64(&mut self) -> u64 {
        self.take(8)
    }
    fn bool(&mut self) -> bool {
        self.take(1) & 1 != 0
    }
    fn assume(&mut self, c: bool) {
        if !c {
            std::panic::panic_any(AssumeFailed);
        }
    }
    fn native(&self) -> bool {
        true
    }
}

/// Vacuity witness: must be reachable & satisfiable under Kani; a no-op natively.
#[macro_export]
macro_rules! vcover {
    ($c:expr, $name:literal) => {{
        #[cfg(kani)]
        kani::cover!($c, $name);
        #[cfg(not(kani))]
        {
            let _ = $c;
        }
    }};
}
