//! Native replay of a solver counterexample: runs the same harness body against
//! the real build (real tables, no stubs) with the recorded `any()` values.
//! Exit 1 = the violation reproduces, 0 = it does not, 3 = the witness violates
//! an assumption (invalid witness), 2 = usage error.

use cozy_verif_harness::nd::{AssumeFailed, Recorded};
use std::panic;

fn parse_vals(s: &str) -> Vec<Vec<u8>> {
    // accepts JSON like [[1,2],[3]] (only digits, commas, brackets)
    let mut out = Vec::new();
    let mut cur: Option<Vec<u8>> = None;
    let mut num: Option<u32> = None;
    let mut depth = 0;
    for ch in s.chars() {
        match ch {
            '[' => {
                depth += 1;
                if depth == 2 {
                    cur = Some(Vec::new());
                }
            }
            ']' => {
                if let (Some(n), Some(c)) = (num.take(), cur.as_mut()) {
                    c.push(n as u8);
                }
                if depth == 2 {
                    out.push(cur.take().unwrap());
                }
                depth -= 1;
            }
            ',' => {
                if let (Some(n), Some(c)) = (num.take(), cur.as_mut()) {
                    c.push(n as u8);
                }
            }
            d if d.is_ascii_digit() => {
                num = Some(num.unwrap_or(0) * 10 + d.to_digit(10).unwrap());
            }
            _ => {}
        }
    }
    out
}

fn main() {
    let args: Vec<String> = std::env::args().collect();
    if args.len() == 2 && args[1] == "--list" {
        for (n, _) in cozy_verif_harness::registry() {
            println!("{}", n);
        }
        return;
    }
    if args.len() < 3 {
        eprintln!("usage: replay <harness> <vals-json | @file>");
        std::process::exit(2);
    }
    let name = args[1].split("::").last().unwrap().to_string();
    let raw = if let Some(f) = args[2].strip_prefix('@') { std::fs::read_to_string(f).unwrap() } else { args[2].clone() };
    let vals = parse_vals(&raw);
    let reg = cozy_verif_harness::registry();
    let body = match reg.iter().find(|(n, _)| *n == name) {
        Some((_, b)) => *b,
        None => {
            eprintln!("unknown harness {}", name);
            std::process::exit(2);
        }
    };
    let r = panic::catch_unwind(move || {
        let mut n = Recorded::new(vals);
        body(&mut n);
    });
    match r {
        Ok(()) => {
            println!("NOT-REPRODUCED");
            std::process::exit(0);
        }
        Err(e) => {
            if e.downcast_ref::<AssumeFailed>().is_some() {
                println!("ASSUME-FAILED");
                std::process::exit(3);
            }
            let msg = if let Some(s) = e.downcast_ref::<&str>() {
                s.to_string()
            } else if let Some(s) = e.downcast_ref::<String>() {
                s.clone()
            } else {
                "panic".to_string()
            };
            println!("REPRODUCED: {}", msg);
            std::process::exit(1);
        }
    }
}
