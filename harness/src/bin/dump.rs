//! Dumps hook-exposed constants of the real build as JSON for the SMT engines:
//!   dump keys    -> the 793 behavioural Zobrist keys
//!   dump sliders -> per-square index entries and the generated attack table
use cozy_chess::*;
use cozy_verif_harness::sym::*;

fn main() {
    let what = std::env::args().nth(1).unwrap_or_default();
    match what.as_str() {
        "keys" => {
            let k = keys();
            let mut out = String::from("{\"piece\":[");
            for c in 0..2 {
                for p in 0..6 {
                    for s in 0..64 {
                        out.push_str(&format!("{},", k.piece[c][p][s]));
                    }
                }
            }
            out.pop();
            out.push_str("],\"castle\":[");
            for c in 0..2 {
                for w in 0..2 {
                    for f in 0..8 {
                        out.push_str(&format!("{},", k.castle[c][w][f]));
                    }
                }
            }
            out.pop();
            out.push_str("],\"ep\":[");
            for f in 0..8 {
                out.push_str(&format!("{},", k.ep[f]));
            }
            out.pop();
            out.push_str(&format!("],\"side\":{}}}", k.side));
            println!("{}", out);
        }
        "sliders" => {
            let mut out = String::from("{\"entries\":{");
            for (name, rook) in [("rook", true), ("bishop", false)] {
                out.push_str(&format!("\"{}\":[", name));
                for s in 0..64u8 {
                    let (a, b, c, d) = cozy_chess_types::verif_index_entry(rook, sq(s));
                    out.push_str(&format!("[{},{},{},{}],", a, b, c, d));
                }
                out.pop();
                out.push_str("],");
            }
            out.pop();
            out.push_str("},\"pext\":");
            out.push_str(if cfg!(feature = "pext") { "true" } else { "false" });
            out.push_str(",\"table\":[");
            for v in verif_sliding_moves_table().iter() {
                out.push_str(&format!("{},", v));
            }
            out.pop();
            out.push_str("]}");
            println!("{}", out);
        }
        "eval" => {
            // eval <rook|bishop> <sq> <occ> : the real lookup, for replaying SMT models
            let a: Vec<String> = std::env::args().collect();
            let s: u8 = a[3].parse().unwrap();
            let occ: u64 = a[4].parse().unwrap();
            let v = if a[2] == "rook" { get_rook_moves(sq(s), BitBoard(occ)) } else { get_bishop_moves(sq(s), BitBoard(occ)) };
            let idx = if a[2] == "rook" {
                cozy_chess_types::get_rook_moves_index(sq(s), BitBoard(occ))
            } else {
                cozy_chess_types::get_bishop_moves_index(sq(s), BitBoard(occ))
            };
            println!("{} {}", v.0, idx);
        }
        "try_offset" => {
            let a: Vec<String> = std::env::args().collect();
            let s: u8 = a[2].parse().unwrap();
            let df: i8 = a[3].parse().unwrap();
            let dr: i8 = a[4].parse().unwrap();
            match sq(s).try_offset(df, dr) {
                Some(q) => println!("{}", q as u8),
                None => println!("none"),
            }
        }
        _ => {
            eprintln!("usage: dump keys|sliders|eval|try_offset");
            std::process::exit(2);
        }
    }
}
