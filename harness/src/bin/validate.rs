//! Native validation of the reference model (the oracle), not of the library:
//! pushes the repository's own test positions through both the real code and
//! the reference and requires agreement on everything the harnesses later
//! assert symbolically. FENs are read from stdin, one per line.
//! Exit 0 = oracle agrees everywhere, 1 = disagreement (printed).

use cozy_chess::*;
use cozy_verif_harness::refm;
use cozy_verif_harness::sym::*;
use std::io::BufRead;

struct Stats {
    nodes: u64,
    moves: u64,
    bad: u64,
}

fn check_node(b: &Board, keys: &refm::Keys, st: &mut Stats, depth: u32, what: &str) {
    st.nodes += 1;
    let p = pos_of(b);
    let (half, full) = (b.halfmove_clock(), b.fullmove_number());
    let badc = std::cell::Cell::new(0u64);
    let prev = st.bad;
    let bad = |msg: String| {
        badc.set(badc.get() + 1);
        if prev + badc.get() < 20 {
            println!("DISAGREE [{}] {} :: {}", what, fen(&p, half, full), msg);
        }
    };
    if !refm::accepts(&p, half, full) {
        bad("ref::accepts is false on a board the library handed out".into());
    }
    let (ck, pin) = refm::checkers_and_pins(&p, p.stm as usize);
    if ck != b.checkers().0 || pin != b.pinned().0 {
        bad(format!("checkers/pins ref=({:x},{:x}) real=({:x},{:x})", ck, pin, b.checkers().0, b.pinned().0));
    }
    if refm::zobrist(&p, keys) != b.hash() {
        bad("zobrist".into());
    }
    let mut noep = p;
    noep.ep = refm::NONE;
    if refm::zobrist(&noep, keys) != b.hash_without_ep() {
        bad("hash_without_ep".into());
    }
    // generated move set
    let mut gen: Vec<Move> = Vec::new();
    b.generate_moves(|pm| {
        for m in pm {
            gen.push(m);
        }
        false
    });
    let mut legal_n = 0;
    for f in 0..64u8 {
        for t in 0..64u8 {
            for pr in 0..=6u8 {
                let l = refm::legal(&p, f, t, pr);
                let m = mv(f, t, pr);
                let g = gen.iter().filter(|&&x| x == m).count();
                if l {
                    legal_n += 1;
                }
                if g != l as usize {
                    bad(format!("move {} ref legal={} generated {} times", m, l, g));
                }
                if b.is_legal(m) != l {
                    bad(format!("is_legal({}) = {} ref = {}", m, b.is_legal(m), l));
                }
            }
        }
    }
    st.moves += legal_n;
    let mut children: Vec<Board> = Vec::new();
    // status
    let want = if legal_n == 0 {
        if ck != 0 { GameStatus::Won } else { GameStatus::Drawn }
    } else if half >= 100 {
        GameStatus::Drawn
    } else {
        GameStatus::Ongoing
    };
    if b.status() != want {
        bad(format!("status {:?} want {:?}", b.status(), want));
    }
    // null move
    match b.null_move() {
        None => {
            if ck == 0 {
                bad("null_move refused without check".into());
            }
        }
        Some(nb) => {
            if ck != 0 {
                bad("null_move allowed in check".into());
            }
            let np = refm::null_move(&p);
            if pos_of(&nb) != np {
                bad("null move position".into());
            }
            let (nck, npin) = refm::checkers_and_pins(&np, np.stm as usize);
            if nb.checkers().0 != nck || nb.pinned().0 != npin {
                bad("null move checkers/pins".into());
            }
            if (nb.halfmove_clock(), nb.fullmove_number()) != refm::clocks_after_null(&p, half, full) {
                bad("null move clocks".into());
            }
            if nb.hash() != refm::zobrist(&np, keys) {
                bad("null move hash".into());
            }
        }
    }
    // builder round trip and same_position
    let bb = BoardBuilder::from_board(b);
    match bb.build() {
        Ok(b2) => {
            if &b2 != b {
                bad("from_board().build() differs".into());
            }
            if !b.same_position(&b2) {
                bad("same_position not reflexive".into());
            }
        }
        Err(e) => bad(format!("from_board().build() = {:?}", e)),
    }
    if p.ep < 8 {
        let mut b3 = b.clone();
        // same board without the ep file, through the builder
        let mut bb2 = BoardBuilder::from_board(b);
        bb2.en_passant = None;
        if let Ok(x) = bb2.build() {
            b3 = x;
        }
        let want = !refm::ep_capturable(&p);
        if b.same_position(&b3) != want {
            bad(format!("same_position vs ep-less board = {} want {}", b.same_position(&b3), want));
        }
    }
    // successors
    for &m in &gen {
        let (f, t, pr) = (m.from as u8, m.to as u8, promo_code(m.promotion));
        let mut nb = b.clone();
        nb.play_unchecked(m);
        let np = refm::make_move(&p, f, t, pr);
        if pos_of(&nb) != np {
            bad(format!("successor of {} differs: real {} ref {}", m, nb, fen(&np, 0, 1)));
            continue;
        }
        if (nb.halfmove_clock(), nb.fullmove_number()) != refm::clocks_after_move(&p, f, t, half, full) {
            bad(format!("clocks after {}", m));
        }
        let mut tb = b.clone();
        if tb.try_play(m).is_err() || tb != nb {
            bad(format!("try_play({})", m));
        }
        if depth > 0 {
            children.push(nb);
        } else {
            // leaf: still compare derived fields
            let (c2, p2) = refm::checkers_and_pins(&np, np.stm as usize);
            if c2 != nb.checkers().0 || p2 != nb.pinned().0 || refm::zobrist(&np, keys) != nb.hash() {
                bad(format!("derived fields after {}", m));
            }
            if !refm::accepts(&np, nb.halfmove_clock(), nb.fullmove_number()) {
                bad(format!("successor after {} not accepted by ref", m));
            }
        }
    }
    st.bad += badc.get();
    for c in &children {
        check_node(c, keys, st, depth - 1, what);
    }
}

fn main() {
    let depth: u32 = std::env::args().nth(1).and_then(|s| s.parse().ok()).unwrap_or(1);
    let keys = keys();
    let mut st = Stats { nodes: 0, moves: 0, bad: 0 };
    let mut n = 0;
    for line in std::io::stdin().lock().lines() {
        let line = line.unwrap();
        let l = line.trim();
        if l.is_empty() {
            continue;
        }
        let b = match l.parse::<Board>() {
            Ok(b) => b,
            Err(_) => match Board::from_fen(l, true) {
                Ok(b) => b,
                Err(_) => continue,
            },
        };
        n += 1;
        check_node(&b, &keys, &mut st, depth, l);
    }
    // all 960 start positions: accepted by the reference, castling rights as placed
    for i in 0..960u32 {
        let b = Board::chess960_startpos(i);
        let p = pos_of(&b);
        if !refm::accepts(&p, b.halfmove_clock(), b.fullmove_number()) {
            st.bad += 1;
            println!("DISAGREE startpos {} not accepted by ref", i);
        }
    }
    println!("validated roots={} nodes={} legal_moves={} disagreements={}", n, st.nodes, st.moves, st.bad);
    std::process::exit(if st.bad == 0 { 0 } else { 1 });
}
