//! C20 — UCI helpers (every accepted board with orthodox castling rights, every
//! legal move) and the UCI reader's totality on short strings.

use crate::nd::Nd;
use crate::refm::{self, bit, Pos};
use crate::sym::*;
use crate::util::{sym_str, Buf};
use crate::vcover;
use core::fmt::Write;
use cozy_chess::util::*;
use cozy_chess::*;

/// All castling rights present name the a/h rooks with the king on the e-file.
fn orthodox(p: &Pos) -> bool {
    let mut ok = true;
    let mut c = 0;
    while c < 2 {
        let kf = (p.king_bb(c).trailing_zeros() & 7) as u8;
        let (s, l) = (p.castle[c][0], p.castle[c][1]);
        if s < 8 {
            ok &= s == 7 && kf == 4;
        }
        if l < 8 {
            ok &= l == 0 && kf == 4;
        }
        c += 1;
    }
    ok
}

/// Writer emits standard UCI (castling as the king's two-square move) and the
/// reader inverts it, for every legal move. Cubed by "castling / other".
pub fn uci_roundtrip<N: Nd>(n: &mut N, castle_cube: u8) {
    let (p, half, full) = sym_accepted(n);
    n.assume(orthodox(&p));
    let (f, t, pr) = sym_move(n);
    n.assume(refm::legal(&p, f, t, pr));
    let is_castle = p.col[p.stm as usize] & bit(t) != 0;
    match castle_cube {
        0 => n.assume(!is_castle),
        1 => n.assume(is_castle),
        _ => {}
    }
    if n.native() {
        println!("witness: board \"{}\" move {}", fen(&p, half, full), mv(f, t, pr));
    }
    let b = board_of(&p, half, full, n.u64());
    let m = mv(f, t, pr);
    // expected text: castling e1h1 -> e1g1, e1a1 -> e1c1 (same for rank 8)
    let ut = if is_castle { (f & 56) + if (t & 7) == 7 { 6 } else { 2 } } else { t };
    let mut buf = Buf::<8>::new();
    write!(buf, "{}", display_uci_move(&b, m)).unwrap();
    let want_len = if pr == 0 { 4 } else { 5 };
    assert!(!buf.overflow && buf.len == want_len);
    assert!(buf.b[0] == b'a' + (f & 7) && buf.b[1] == b'1' + (f >> 3));
    assert!(buf.b[2] == b'a' + (ut & 7) && buf.b[3] == b'1' + (ut >> 3));
    if pr != 0 {
        assert!(buf.b[4] == [b'p', b'n', b'b', b'r', b'q', b'k'][(pr - 1) as usize]);
    }
    let back = parse_uci_move(&b, buf.as_str());
    assert!(back.ok() == Some(m));
    vcover!(is_castle && (t & 7) == 0, "@castle|any long castling");
    vcover!(pr != 0, "@plain|any a promotion");
}

/// The UCI reader never panics and only rewrites the destination of a king move
/// from the e-file: every string of at most 6 bytes on every accepted board.
pub fn uci_reader_total<N: Nd>(n: &mut N) {
    let (p, half, full) = sym_accepted(n);
    let (bs, len) = sym_str::<6, N>(n);
    let s = match core::str::from_utf8(&bs[..len]) {
        Ok(s) => s,
        Err(_) => return,
    };
    let b = board_of(&p, half, full, n.u64());
    let plain = s.parse::<Move>();
    let got = parse_uci_move(&b, s);
    assert!(got.is_ok() == plain.is_ok());
    if let (Ok(g), Ok(pl)) = (got, plain) {
        assert!(g.from == pl.from && g.promotion == pl.promotion);
        let king_from_e = p.king_bb(p.stm as usize) == bit(pl.from as u8) && (pl.from as u8 & 7) == 4
            && (pl.from as u8 >> 3) == if p.stm == 0 { 0 } else { 7 };
        assert!(g.to == pl.to || king_from_e);
    }
}

crate::bproofs! {
    c20_uci_roundtrip_plain => |n: &mut _| uci_roundtrip(n, 0);
    c20_uci_roundtrip_castle => |n: &mut _| uci_roundtrip(n, 1);
    c20_uci_reader_total => uci_reader_total;
}
