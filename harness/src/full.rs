//! Bounded full-mask harnesses (boards with at most `nmax` pieces): generation with
//! an arbitrary 64-bit mask (C01-H2 / C16) and the semantics of `status()` with
//! the real generator (C12). These complement the unbounded per-origin harnesses.

use crate::nd::Nd;
use crate::refm::{self, bit, Pos};
use crate::sym::*;
use crate::vcover;
use cozy_chess::*;

fn in_batch(pm: &PieceMoves, f: u8, t: u8, pr: u8) -> bool {
    let on = (pm.to.0 >> t) & 1 != 0;
    let promo_sq = pm.piece == Piece::Pawn && ((refm::RANK_1 | refm::RANK_8) >> t) & 1 != 0;
    let shape = if promo_sq { pr >= 2 && pr <= 5 } else { pr == 0 };
    pm.from as u8 == f && on && shape
}

fn small_board<N: Nd>(n: &mut N, nmax: u32, ck: u8) -> (Pos, u8, u16) {
    let (p, half, full) = sym_accepted(n);
    n.assume(p.occ().count_ones() <= nmax);
    let (c, _) = refm::checkers_and_pins(&p, p.stm as usize);
    match ck {
        0 => n.assume(c == 0),
        1 => n.assume(c.count_ones() == 1),
        2 => n.assume(c.count_ones() >= 2),
        _ => {}
    }
    if n.native() {
        println!("witness: board \"{}\"", fen(&p, half, full));
    }
    (p, half, full)
}

/// Masked generation with an arbitrary mask yields exactly the legal moves whose
/// origin is in the mask; batches non-empty; at most 18 of them; never aborts.
pub fn masked<N: Nd>(n: &mut N, nmax: u32, ck: u8) {
    let (p, half, full) = small_board(n, nmax, ck);
    let mask = n.u64();
    let (f, t, pr) = sym_move(n);
    if n.native() {
        println!("witness: mask {:#x} move {}", mask, mv(f, t, pr));
    }
    let b = board_of(&p, half, full, n.u64());
    let mut calls = 0u32;
    let mut count = 0u32;
    let mut ok = true;
    let r = b.generate_moves_for(BitBoard(mask), |pm| {
        calls += 1;
        ok &= !pm.is_empty() && (mask >> (pm.from as u8)) & 1 != 0;
        if in_batch(&pm, f, t, pr) {
            count += 1;
        }
        false
    });
    let want = (mask >> f) & 1 != 0 && refm::legal(&p, f, t, pr);
    assert!(!r);
    assert!(ok);
    assert!(count == want as u32);
    assert!(calls <= 18);
    vcover!(want && calls >= 2, "@c[01] two batches with a legal move");
    vcover!(!want && refm::legal(&p, f, t, pr), "a legal move masked out");
}

/// `status()` with the real generator against the reference.
pub fn status_sem<N: Nd>(n: &mut N, nmax: u32, ck: u8) {
    let (p, half, full) = small_board(n, nmax, ck);
    let (f, t, pr) = sym_move(n);
    let b = board_of(&p, half, full, n.u64());
    let (c, _) = refm::checkers_and_pins(&p, p.stm as usize);
    let st = b.status();
    // universal side: (f,t,pr) is arbitrary, so "legal => status says a move exists" covers every move
    if refm::legal(&p, f, t, pr) {
        assert!(st == if half >= 100 { GameStatus::Drawn } else { GameStatus::Ongoing });
    }
    // existential side: when status says a move exists, the real generator's first batch holds a legal one
    let says_move = st == GameStatus::Ongoing || (st == GameStatus::Drawn && half >= 100 && c != 0) ;
    if st == GameStatus::Won {
        assert!(c != 0);
    }
    if st == GameStatus::Drawn && half < 100 {
        assert!(c == 0);
    }
    if says_move {
        let mut w: Option<PieceMoves> = None;
        b.generate_moves(|pm| {
            w = Some(pm);
            true
        });
        match w {
            None => assert!(false),
            Some(pm) => {
                let to = pm.to.0.trailing_zeros() as u8;
                let promo = pm.piece == Piece::Pawn && ((refm::RANK_1 | refm::RANK_8) >> to) & 1 != 0;
                assert!(pm.to.0 != 0 && refm::legal(&p, pm.from as u8, to, if promo { 2 } else { 0 }));
            }
        }
    }
    vcover!(st == GameStatus::Won, "@c[12] a checkmate");
    vcover!(st == GameStatus::Drawn && half < 100, "@c0 a stalemate");
    vcover!(st == GameStatus::Won && half == 100, "@c[12] mate with the clock at 100");
}

crate::bproofs! {
    c16_masked_n3_c0 => |n: &mut _| masked(n, 3, 0);
    c16_masked_n3_c1 => |n: &mut _| masked(n, 3, 1);
    c16_masked_n4_c0 => |n: &mut _| masked(n, 4, 0);
    c16_masked_n4_c1 => |n: &mut _| masked(n, 4, 1);
    c16_masked_n4_c2 => |n: &mut _| masked(n, 4, 2);
    c12_sem_n3_c0 => |n: &mut _| status_sem(n, 3, 0);
    c12_sem_n3_c1 => |n: &mut _| status_sem(n, 3, 1);
    c12_sem_n4_c0 => |n: &mut _| status_sem(n, 4, 0);
    c12_sem_n4_c1 => |n: &mut _| status_sem(n, 4, 1);
    c12_sem_n4_c2 => |n: &mut _| status_sem(n, 4, 2);
}
