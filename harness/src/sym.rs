//! Symbolic inputs and conversions between the reference model and cozy-chess types.

use crate::nd::Nd;
use crate::refm::{self, Keys, Pos, NONE};
use cozy_chess::*;

#[inline(always)]
pub fn sq(i: u8) -> Square {
    Square::try_index((i & 63) as usize).unwrap()
}

#[inline(always)]
pub fn file(i: u8) -> File {
    File::try_index((i & 7) as usize).unwrap()
}

#[inline(always)]
pub fn rank(i: u8) -> Rank {
    Rank::try_index((i & 7) as usize).unwrap()
}

#[inline(always)]
pub fn piece(i: u8) -> Piece {
    match i {
        0 => Piece::Pawn,
        1 => Piece::Knight,
        2 => Piece::Bishop,
        3 => Piece::Rook,
        4 => Piece::Queen,
        _ => Piece::King,
    }
}

#[inline(always)]
pub fn color(i: u8) -> Color {
    if i == 0 {
        Color::White
    } else {
        Color::Black
    }
}

#[inline(always)]
pub fn opt_file(i: u8) -> Option<File> {
    if i < 8 {
        Some(file(i))
    } else {
        None
    }
}

#[inline(always)]
pub fn file_code(f: Option<File>) -> u8 {
    match f {
        Some(f) => f as u8,
        None => NONE,
    }
}

/// `promo`: 0 none, else piece index + 1.
#[inline(always)]
pub fn mv(from: u8, to: u8, promo: u8) -> Move {
    Move { from: sq(from), to: sq(to), promotion: if promo == 0 { None } else { Some(piece(promo - 1)) } }
}

#[inline(always)]
pub fn promo_code(p: Option<Piece>) -> u8 {
    match p {
        None => 0,
        Some(p) => p as u8 + 1,
    }
}

/// A symbolic move value: any of the 64*64*7 values.
pub fn sym_move<N: Nd>(n: &mut N) -> (u8, u8, u8) {
    let f = n.u8();
    let t = n.u8();
    let p = n.u8();
    n.assume(f < 64);
    n.assume(t < 64);
    n.assume(p <= 6);
    (f, t, p)
}

/// A raw symbolic position (shape constraints only).
pub fn sym_pos<N: Nd>(n: &mut N) -> Pos {
    let mut pc = [0u64; 6];
    for b in pc.iter_mut() {
        *b = n.u64();
    }
    let col = [n.u64(), n.u64()];
    let stm = n.u8();
    let c = [[n.u8(), n.u8()], [n.u8(), n.u8()]];
    let ep = n.u8();
    n.assume(stm < 2);
    n.assume(ep <= 8);
    n.assume(c[0][0] <= 8 && c[0][1] <= 8 && c[1][0] <= 8 && c[1][1] <= 8);
    Pos { pc, col, stm, castle: c, ep }
}

/// A symbolic accepted position with clocks: `refm::accepts` is assumed.
pub fn sym_accepted<N: Nd>(n: &mut N) -> (Pos, u8, u16) {
    let p = sym_pos(n);
    let half = n.u8();
    let full = n.u16();
    n.assume(refm::accepts(&p, half, full));
    (p, half, full)
}

pub fn rights(p: &Pos) -> [CastleRights; 2] {
    [
        CastleRights { short: opt_file(p.castle[0][0]), long: opt_file(p.castle[0][1]) },
        CastleRights { short: opt_file(p.castle[1][0]), long: opt_file(p.castle[1][1]) },
    ]
}

/// The real `Board` for a reference position, derived fields from the reference.
#[cfg(cozy_chess_verif)]
pub fn board_of(p: &Pos, half: u8, full: u16, hash: u64) -> Board {
    let (ck, pin) = refm::checkers_and_pins(p, p.stm as usize);
    Board::verif_from_raw(p.pc, p.col, color(p.stm), rights(p), opt_file(p.ep), hash, pin, ck, half, full)
}

/// A board with explicitly given derived fields.
#[cfg(cozy_chess_verif)]
pub fn board_raw(p: &Pos, half: u8, full: u16, hash: u64, checkers: u64, pinned: u64) -> Board {
    Board::verif_from_raw(p.pc, p.col, color(p.stm), rights(p), opt_file(p.ep), hash, pinned, checkers, half, full)
}

/// Read a position back through the public accessors.
pub fn pos_of(b: &Board) -> Pos {
    let mut pc = [0u64; 6];
    for i in 0..6 {
        pc[i] = b.pieces(piece(i as u8)).0;
    }
    let col = [b.colors(Color::White).0, b.colors(Color::Black).0];
    let w = b.castle_rights(Color::White);
    let k = b.castle_rights(Color::Black);
    Pos {
        pc,
        col,
        stm: b.side_to_move() as u8,
        castle: [[file_code(w.short), file_code(w.long)], [file_code(k.short), file_code(k.long)]],
        ep: file_code(b.en_passant()),
    }
}

/// Per-feature keys, defined behaviourally: the hash of an empty board after the
/// real writer has been applied once.
#[cfg(cozy_chess_verif)]
pub fn keys() -> Keys {
    // one empty board, cloned for every key (building it 793 times is what made symbolic execution slow)
    let e = Board::verif_from_raw([0; 6], [0; 2], Color::White, [CastleRights::EMPTY; 2], None, 0, 0, 0, 0, 1);
    let mut k = Keys { piece: [[[0; 64]; 6]; 2], castle: [[[0; 8]; 2]; 2], ep: [0; 8], side: 0 };
    for c in 0..2 {
        for p in 0..6 {
            for s in 0..64 {
                let mut b = e.clone();
                b.verif_xor_square(piece(p as u8), color(c as u8), sq(s as u8));
                k.piece[c][p][s] = b.hash();
            }
        }
        for w in 0..2 {
            for f in 0..8 {
                let mut b = e.clone();
                b.verif_set_castle_right(color(c as u8), w == 0, Some(file(f as u8)));
                k.castle[c][w][f] = b.hash();
            }
        }
    }
    for f in 0..8 {
        let mut b = e.clone();
        b.verif_set_en_passant(Some(file(f as u8)));
        k.ep[f] = b.hash();
    }
    let mut b = e.clone();
    b.verif_toggle_side_to_move();
    k.side = b.hash();
    k
}

/// FEN text of a reference position (witness printing only).
pub fn fen(p: &Pos, half: u8, full: u16) -> String {
    let mut s = String::new();
    for r in (0..8).rev() {
        let mut empty = 0;
        for f in 0..8 {
            let b = refm::bit(r * 8 + f);
            let k = refm::kind_at(p, b);
            if k < 6 && (p.occ() & b != 0) {
                if empty > 0 {
                    s.push_str(&empty.to_string());
                    empty = 0;
                }
                let ch = ['p', 'n', 'b', 'r', 'q', 'k'][k];
                s.push(if p.col[0] & b != 0 { ch.to_ascii_uppercase() } else { ch });
            } else {
                empty += 1;
            }
        }
        if empty > 0 {
            s.push_str(&empty.to_string());
        }
        if r > 0 {
            s.push('/');
        }
    }
    s.push(' ');
    s.push(if p.stm == 0 { 'w' } else { 'b' });
    s.push(' ');
    let mut any = false;
    for c in 0..2 {
        for w in 0..2 {
            let f = p.castle[c][w];
            if f < 8 {
                any = true;
                let ch = (b'a' + f) as char;
                s.push(if c == 0 { ch.to_ascii_uppercase() } else { ch });
            }
        }
    }
    if !any {
        s.push('-');
    }
    s.push(' ');
    if p.ep < 8 {
        s.push((b'a' + p.ep) as char);
        s.push(if p.stm == 0 { '6' } else { '3' });
    } else {
        s.push('-');
    }
    s.push_str(&format!(" {} {}", half, full));
    s
}
