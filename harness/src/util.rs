//! Small helpers shared by the harnesses.

use core::fmt;

/// Fixed-size byte sink for `Display` output.
pub struct Buf<const N: usize> {
    pub b: [u8; N],
    pub len: usize,
    pub overflow: bool,
}

impl<const N: usize> Buf<N> {
    pub fn new() -> Self {
        Buf { b: [0; N], len: 0, overflow: false }
    }
    pub fn as_str(&self) -> &str {
        core::str::from_utf8(&self.b[..self.len]).unwrap()
    }
}

impl<const N: usize> fmt::Write for Buf<N> {
    fn write_str(&mut self, s: &str) -> fmt::Result {
        for &c in s.as_bytes() {
            if self.len < N {
                self.b[self.len] = c;
                self.len += 1;
            } else {
                self.overflow = true;
            }
        }
        Ok(())
    }
}

/// A symbolic string of at most `N` bytes that is valid UTF-8 (other byte
/// strings cannot be passed to the parsers at all, `&str` rules them out).
pub fn sym_str<const N: usize, D: crate::nd::Nd>(n: &mut D) -> ([u8; N], usize) {
    let mut b = [0u8; N];
    for x in b.iter_mut() {
        *x = n.u8();
    }
    let len = n.u8() as usize;
    n.assume(len <= N);
    (b, len)
}
