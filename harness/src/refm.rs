//! Reference model of chess / Chess960 on plain `u64` bitboards.
//!
//! Written from the rules, not from the implementation: legality is decided by
//! making the move and testing whether the mover's king is attacked; slider
//! attacks are Kogge-Stone occluded fills; checkers and pins are found by
//! walking to the first and second blocker on each of the eight king rays.
//! No cozy-chess code is called here. Everything is loop-free (or loops with
//! constant trip counts) and uses only wrapping / bitwise `u64` arithmetic so
//! that the SAT encoding stays small.

#![allow(clippy::needless_range_loop)]

pub const FILE_A: u64 = 0x0101_0101_0101_0101;
pub const FILE_B: u64 = FILE_A << 1;
pub const FILE_G: u64 = FILE_A << 6;
pub const FILE_H: u64 = FILE_A << 7;
pub const NOT_A: u64 = !FILE_A;
pub const NOT_H: u64 = !FILE_H;
pub const NOT_AB: u64 = !(FILE_A | FILE_B);
pub const NOT_GH: u64 = !(FILE_G | FILE_H);
pub const RANK_1: u64 = 0xFF;
pub const RANK_8: u64 = 0xFF << 56;

pub const PAWN: usize = 0;
pub const KNIGHT: usize = 1;
pub const BISHOP: usize = 2;
pub const ROOK: usize = 3;
pub const QUEEN: usize = 4;
pub const KING: usize = 5;
pub const NONE: u8 = 8;

#[inline(always)]
pub fn bit(sq: u8) -> u64 {
    1u64 << (sq & 63)
}

#[inline(always)]
pub fn mask(b: bool) -> u64 {
    0u64.wrapping_sub(b as u64)
}

#[inline(always)]
pub fn rank_bb(r: u8) -> u64 {
    0xFFu64 << ((r & 7) * 8)
}

#[inline(always)]
pub fn file_bb(f: u8) -> u64 {
    FILE_A << (f & 7)
}

// ---------------------------------------------------------------- fills

#[inline(always)]
fn fill_shl(mut g: u64, mut p: u64, s: u32) -> u64 {
    g |= p & (g << s);
    p &= p << s;
    g |= p & (g << (2 * s));
    p &= p << (2 * s);
    g |= p & (g << (4 * s));
    g
}

#[inline(always)]
fn fill_shr(mut g: u64, mut p: u64, s: u32) -> u64 {
    g |= p & (g >> s);
    p &= p >> s;
    g |= p & (g >> (2 * s));
    p &= p >> (2 * s);
    g |= p & (g >> (4 * s));
    g
}

/// Squares reached from the set `g` walking in direction `d` over the board
/// with occupancy `occ`, up to and including the first occupied square.
/// Directions: 0 N, 1 S, 2 E, 3 W, 4 NE, 5 NW, 6 SE, 7 SW.
#[inline(always)]
pub fn ray(d: usize, g: u64, occ: u64) -> u64 {
    let e = !occ;
    match d {
        0 => fill_shl(g, e, 8) << 8,
        1 => fill_shr(g, e, 8) >> 8,
        2 => (fill_shl(g, e & NOT_A, 1) << 1) & NOT_A,
        3 => (fill_shr(g, e & NOT_H, 1) >> 1) & NOT_H,
        4 => (fill_shl(g, e & NOT_A, 9) << 9) & NOT_A,
        5 => (fill_shl(g, e & NOT_H, 7) << 7) & NOT_H,
        6 => (fill_shr(g, e & NOT_A, 7) >> 7) & NOT_A,
        _ => (fill_shr(g, e & NOT_H, 9) >> 9) & NOT_H,
    }
}

/// The direction opposite to `d`.
pub const OPP: [usize; 8] = [1, 0, 3, 2, 7, 6, 5, 4];

#[inline(always)]
pub fn rook_att(g: u64, occ: u64) -> u64 {
    ray(0, g, occ) | ray(1, g, occ) | ray(2, g, occ) | ray(3, g, occ)
}

#[inline(always)]
pub fn bishop_att(g: u64, occ: u64) -> u64 {
    ray(4, g, occ) | ray(5, g, occ) | ray(6, g, occ) | ray(7, g, occ)
}

#[inline(always)]
pub fn knight_att(g: u64) -> u64 {
    let l1 = (g >> 1) & NOT_H;
    let l2 = (g >> 2) & NOT_GH;
    let r1 = (g << 1) & NOT_A;
    let r2 = (g << 2) & NOT_AB;
    let h1 = l1 | r1;
    let h2 = l2 | r2;
    (h1 << 16) | (h1 >> 16) | (h2 << 8) | (h2 >> 8)
}

#[inline(always)]
pub fn king_att(g: u64) -> u64 {
    let a = ((g << 1) & NOT_A) | ((g >> 1) & NOT_H);
    let s = g | a;
    a | (s << 8) | (s >> 8)
}

/// Squares attacked by pawns of colour `c` (0 white, 1 black) standing on `g`.
#[inline(always)]
pub fn pawn_att(g: u64, c: usize) -> u64 {
    let w = ((g << 9) & NOT_A) | ((g << 7) & NOT_H);
    let b = ((g >> 7) & NOT_A) | ((g >> 9) & NOT_H);
    (w & mask(c == 0)) | (b & mask(c != 0))
}

/// Squares strictly between `a` and `b` when they share a rank, file or
/// diagonal; empty otherwise (also when `a == b`).
#[inline(always)]
pub fn between(a: u8, b: u8) -> u64 {
    let ab = bit(a);
    let bb = bit(b);
    let mut r = 0;
    let mut d = 0;
    while d < 8 {
        r |= ray(d, ab, 0) & ray(OPP[d], bb, 0);
        d += 1;
    }
    r
}

/// The whole line through `a` and `b` (both included) when they are distinct
/// and share a rank, file or diagonal; empty otherwise.
#[inline(always)]
pub fn line(a: u8, b: u8) -> u64 {
    let ab = bit(a);
    let bb = bit(b);
    let mut r = 0;
    let mut d = 0;
    while d < 8 {
        let fwd = ray(d, ab, 0);
        let l = fwd | ray(OPP[d], ab, 0) | ab;
        r |= l & mask(fwd & bb != 0);
        d += 1;
    }
    r
}

// ---------------------------------------------------------------- position

/// A position. `castle[c][0]` is colour `c`'s short (king side) rook file,
/// `castle[c][1]` the long one; `NONE` (8) when the right is absent. `ep` is
/// the en-passant file or `NONE`.
#[derive(Clone, Copy, PartialEq, Eq, Debug)]
pub struct Pos {
    pub pc: [u64; 6],
    pub col: [u64; 2],
    pub stm: u8,
    pub castle: [[u8; 2]; 2],
    pub ep: u8,
}

impl Pos {
    /// Field-wise equality without array comparisons (those become memcmp loops in the model checker).
    pub fn same(&self, o: &Pos) -> bool {
        self.core_same(o) & (self.ep == o.ep)
    }
    /// Equality of placement, side to move and castling rights.
    pub fn core_same(&self, o: &Pos) -> bool {
        let mut ok = true;
        let mut i = 0;
        while i < 6 {
            ok &= self.pc[i] == o.pc[i];
            i += 1;
        }
        ok &= (self.col[0] == o.col[0]) & (self.col[1] == o.col[1]) & (self.stm == o.stm);
        ok &= castle_same(&self.castle, &o.castle);
        ok
    }
    #[inline(always)]
    pub fn occ(&self) -> u64 {
        self.col[0] | self.col[1]
    }
    #[inline(always)]
    pub fn king_bb(&self, c: usize) -> u64 {
        self.pc[KING] & self.col[c]
    }
}

pub fn castle_same(a: &[[u8; 2]; 2], b: &[[u8; 2]; 2]) -> bool {
    (a[0][0] == b[0][0]) & (a[0][1] == b[0][1]) & (a[1][0] == b[1][0]) & (a[1][1] == b[1][1])
}

/// Piece kind on the squares of `b` (0..=5), 6 when there is none.
#[inline(always)]
pub fn kind_at(p: &Pos, b: u64) -> usize {
    let mut k = 6usize;
    let mut i = 0;
    while i < 6 {
        // mask-select keeps this branch-free
        let m = 0usize.wrapping_sub((p.pc[i] & b != 0) as usize);
        k = (k & !m) | (i & m);
        i += 1;
    }
    k
}

/// Is any square of `t` attacked by a piece of colour `c`, with occupancy `occ`?
#[inline(always)]
pub fn attacked(p: &Pos, t: u64, c: usize, occ: u64) -> bool {
    attackers(p, t, c, occ) != 0
}

/// The pieces of colour `c` attacking some square of `t`, with occupancy `occ`.
#[inline(always)]
pub fn attackers(p: &Pos, t: u64, c: usize, occ: u64) -> u64 {
    let e = p.col[c];
    e & ((pawn_att(t, c ^ 1) & p.pc[PAWN])
        | (knight_att(t) & p.pc[KNIGHT])
        | (king_att(t) & p.pc[KING])
        | (rook_att(t, occ) & (p.pc[ROOK] | p.pc[QUEEN]))
        | (bishop_att(t, occ) & (p.pc[BISHOP] | p.pc[QUEEN])))
}

#[inline(always)]
pub fn ep_square(p: &Pos) -> u8 {
    // rank 6 (index 5) when White is to move, rank 3 (index 2) when Black is
    let r = if p.stm == 0 { 5 } else { 2 };
    r * 8 + (p.ep & 7)
}

/// The successor position of playing `from`-`to` (castling given as king to
/// own rook). `promo`: 0 none, else piece index + 1. Assumes an own piece on `from`.
pub fn make_move(p: &Pos, from: u8, to: u8, promo: u8) -> Pos {
    let us = p.stm as usize;
    let them = us ^ 1;
    let fb = bit(from);
    let tb = bit(to);
    let own = p.col[us];
    let opp = p.col[them];
    let kind = kind_at(p, fb);
    let castle = own & tb != 0;
    let back: u8 = if us == 0 { 0 } else { 56 };
    let mut n = *p;
    if castle {
        let short = p.castle[us][0] == (to & 7);
        let kd = back + if short { 6 } else { 2 };
        let rd = back + if short { 5 } else { 3 };
        n.pc[KING] = (p.pc[KING] & !fb) | bit(kd);
        n.pc[ROOK] = (p.pc[ROOK] & !tb) | bit(rd);
        n.col[us] = (own & !fb & !tb) | bit(kd) | bit(rd);
        n.castle[us] = [NONE, NONE];
    } else {
        let is_ep = (kind == PAWN) & (p.ep < 8) & (to == ep_square(p)) & ((from & 7) != (to & 7));
        let cap = if is_ep { bit(to ^ 8) } else { tb };
        let placed = if promo != 0 { (promo - 1) as usize } else { kind };
        let mut i = 0;
        while i < 6 {
            n.pc[i] = (p.pc[i] & !fb & !cap) | (tb & mask(i == placed));
            i += 1;
        }
        n.col[us] = (own & !fb) | tb;
        n.col[them] = opp & !cap;
        if kind == KING {
            n.castle[us] = [NONE, NONE];
        }
        let tback = back ^ 56;
        let mut s = 0;
        while s < 2 {
            let o = p.castle[us][s];
            if (o < 8) & (from == back + (o & 7)) {
                n.castle[us][s] = NONE;
            }
            let t = p.castle[them][s];
            if (t < 8) & (to == tback + (t & 7)) {
                n.castle[them][s] = NONE;
            }
            s += 1;
        }
    }
    let double = (!castle) & (kind == PAWN) & ((from ^ to) == 16) & ((from >> 3 == 1) | (from >> 3 == 6));
    n.ep = if double { to & 7 } else { NONE };
    n.stm = them as u8;
    n
}

/// Clocks after playing `from`-`to` in `p`.
pub fn clocks_after_move(p: &Pos, from: u8, to: u8, half: u8, full: u16) -> (u8, u16) {
    let us = p.stm as usize;
    let kind = kind_at(p, bit(from));
    let castle = p.col[us] & bit(to) != 0;
    let capture = (p.col[us ^ 1] & bit(to) != 0) & !castle;
    let nh = if (kind == PAWN) | capture {
        0
    } else if half >= 100 {
        100
    } else {
        half + 1
    };
    let nf = if us == 1 { if full == u16::MAX { full } else { full + 1 } } else { full };
    (nh, nf)
}

/// Castling legality of king `from` to own rook `to`.
fn castle_legal(p: &Pos, from: u8, to: u8) -> bool {
    let us = p.stm as usize;
    let them = us ^ 1;
    let own = p.col[us];
    let occ = p.occ();
    let k = p.king_bb(us);
    let back: u8 = if us == 0 { 0 } else { 56 };
    let on_back = (k & rank_bb(back >> 3) != 0) & (bit(to) & rank_bb(back >> 3) != 0);
    let tf = to & 7;
    let short = p.castle[us][0] == tf;
    let long = p.castle[us][1] == tf;
    let named = short | long;
    let kd = back + if short { 6 } else { 2 };
    let rd = back + if short { 5 } else { 3 };
    let rook_there = own & p.pc[ROOK] & bit(to) != 0;
    let king_path = between(from, kd) | bit(kd);
    let rook_path = between(to, rd) | bit(rd);
    let others = occ & !k & !bit(to);
    let empty = (king_path | rook_path) & others == 0;
    // the king may not stand on, cross or land on an attacked square
    let safe_path = !attacked(p, king_path | k, them, occ & !k);
    // and the position after castling must leave it unattacked
    let after = make_move(p, from, to, 0);
    let safe_after = !attacked(&after, after.king_bb(us), them, after.occ());
    (bit(from) == k) & on_back & named & rook_there & empty & safe_path & safe_after
}

/// Pseudo-legal destinations of the own piece on `from` (castling excluded).
pub fn pseudo_targets(p: &Pos, from: u8) -> u64 {
    let us = p.stm as usize;
    let fb = bit(from);
    let own = p.col[us];
    let opp = p.col[us ^ 1];
    let occ = own | opp;
    let kind = kind_at(p, fb);
    let epb = if p.ep < 8 { bit(ep_square(p)) } else { 0 };
    let one_w = (fb << 8) & !occ;
    let two_w = ((one_w & rank_bb(2)) << 8) & !occ;
    let one_b = (fb >> 8) & !occ;
    let two_b = ((one_b & rank_bb(5)) >> 8) & !occ;
    let pushes = ((one_w | two_w) & mask(us == 0)) | ((one_b | two_b) & mask(us != 0));
    let pawn = pushes | (pawn_att(fb, us) & (opp | epb));
    let t = (pawn & mask(kind == PAWN))
        | (knight_att(fb) & mask(kind == KNIGHT))
        | (bishop_att(fb, occ) & mask((kind == BISHOP) | (kind == QUEEN)))
        | (rook_att(fb, occ) & mask((kind == ROOK) | (kind == QUEEN)))
        | (king_att(fb) & mask(kind == KING));
    t & !own
}

/// Is `from`-`to` with `promo` (0 none, else piece index + 1) a legal move?
pub fn legal(p: &Pos, from: u8, to: u8, promo: u8) -> bool {
    let us = p.stm as usize;
    let them = us ^ 1;
    let fb = bit(from);
    let tb = bit(to);
    let own = p.col[us];
    let from_own = own & fb != 0;
    let to_own = own & tb != 0;
    let kind = kind_at(p, fb);
    let last = tb & (RANK_1 | RANK_8) != 0;
    let promo_piece = (promo >= 2) & (promo <= 5);
    let promo_ok = if kind == PAWN { if last { promo_piece } else { promo == 0 } } else { promo == 0 };
    let pseudo = pseudo_targets(p, from) & tb != 0;
    let after = make_move(p, from, to, promo);
    let safe = !attacked(&after, after.king_bb(us), them, after.occ());
    let normal = (!to_own) & pseudo & promo_ok & safe;
    let castle = to_own & (kind == KING) & (promo == 0) & castle_legal(p, from, to);
    from_own & (normal | castle)
}

/// Checkers of and pieces pinned to the king of colour `c`:
/// (enemy pieces attacking it, pieces of either colour standing alone between
/// it and an enemy slider aligned with it along that slider's line).
pub fn checkers_and_pins(p: &Pos, c: usize) -> (u64, u64) {
    let k = p.king_bb(c);
    let e = p.col[c ^ 1];
    let occ = p.occ();
    let orth = e & (p.pc[ROOK] | p.pc[QUEEN]);
    let diag = e & (p.pc[BISHOP] | p.pc[QUEEN]);
    let mut checkers = 0;
    let mut pinned = 0;
    let mut d = 0;
    while d < 8 {
        let sl = if d < 4 { orth } else { diag };
        let b1 = ray(d, k, occ) & occ;
        let b2 = ray(d, b1, occ) & occ;
        checkers |= b1 & sl;
        pinned |= b1 & mask(b2 & sl != 0);
        d += 1;
    }
    checkers |= knight_att(k) & e & p.pc[KNIGHT];
    checkers |= pawn_att(k, c) & e & p.pc[PAWN];
    (checkers, pinned)
}

#[inline(always)]
pub fn popcnt(x: u64) -> u32 {
    x.count_ones()
}

/// Placement sanity: the part of acceptance that concerns the piece boards only.
pub fn placement_ok(p: &Pos) -> bool {
    let mut ok = true;
    let mut un = 0u64;
    let mut i = 0;
    while i < 6 {
        ok &= p.pc[i] & un == 0;
        un |= p.pc[i];
        i += 1;
    }
    ok &= p.col[0] & p.col[1] == 0;
    ok &= un == p.occ();
    let mut c = 0;
    while c < 2 {
        let pcs = p.col[c];
        ok &= popcnt(pcs) <= 16;
        ok &= popcnt(pcs & p.pc[KING]) == 1;
        ok &= popcnt(pcs & p.pc[PAWN]) <= 8;
        ok &= pcs & p.pc[PAWN] & (RANK_1 | RANK_8) == 0;
        c += 1;
    }
    ok
}

/// `board_is_valid` as the property states it (C06).
pub fn board_ok(p: &Pos) -> bool {
    let us = p.stm as usize;
    // the side not to move is not in check (this includes adjacent kings)
    placement_ok(p) & !attacked(p, p.king_bb(us ^ 1), us, p.occ())
}

pub fn castle_ok(p: &Pos) -> bool {
    let mut ok = true;
    let mut c = 0;
    while c < 2 {
        let back: u8 = if c == 0 { 0 } else { 7 };
        let k = p.king_bb(c);
        let kf = (k.trailing_zeros() & 7) as u8;
        let rooks = p.col[c] & p.pc[ROOK];
        let s = p.castle[c][0];
        let l = p.castle[c][1];
        if (s < 8) | (l < 8) {
            ok &= k & rank_bb(back) != 0;
        }
        if s < 8 {
            ok &= rooks & bit(back * 8 + (s & 7)) != 0;
            ok &= kf < s;
        }
        if l < 8 {
            ok &= rooks & bit(back * 8 + (l & 7)) != 0;
            ok &= l < kf;
        }
        c += 1;
    }
    ok
}

/// En-passant acceptance: a file is only allowed when the enemy pawn stands on
/// its fourth rank on that file with the two squares behind it empty, and every
/// piece checking the side to move is that pawn or a slider whose line to the
/// king crosses the pawn's origin square (a discovered check by the push).
pub fn ep_ok(p: &Pos) -> bool {
    if p.ep >= 8 {
        return true;
    }
    let us = p.stm as usize;
    let them = us ^ 1;
    let f = p.ep & 7;
    let (src, mid, dst) = if them == 0 { (8 + f, 16 + f, 24 + f) } else { (48 + f, 40 + f, 32 + f) };
    let occ = p.occ();
    let mut ok = (occ & bit(src) == 0) & (occ & bit(mid) == 0);
    ok &= p.col[them] & p.pc[PAWN] & bit(dst) != 0;
    let (ck, _) = checkers_and_pins(p, us);
    // checkers other than the pushed pawn must be sliders discovered through src
    let k = p.king_bb(us);
    let mut through = 0u64;
    let mut d = 0;
    while d < 8 {
        // enemy pieces that see the king along d with src strictly in between
        let r = ray(d, k, occ);
        let hit = r & occ;
        through |= hit & mask(r & bit(src) != 0);
        d += 1;
    }
    ok &= ck & !bit(dst) & !through == 0;
    ok
}

/// The acceptance predicate: what the library's constructors are meant to accept.
pub fn accepts(p: &Pos, half: u8, full: u16) -> bool {
    let shape = (p.stm < 2)
        & (p.ep <= 8)
        & (p.castle[0][0] <= 8)
        & (p.castle[0][1] <= 8)
        & (p.castle[1][0] <= 8)
        & (p.castle[1][1] <= 8);
    if !shape {
        return false;
    }
    let (ck, _) = checkers_and_pins(p, p.stm as usize);
    board_ok(p) & (popcnt(ck) < 3) & castle_ok(p) & ep_ok(p) & (half <= 100) & (full >= 1)
}

/// Does the side to move have at least one legal en-passant capture?
pub fn ep_capturable(p: &Pos) -> bool {
    if p.ep >= 8 {
        return false;
    }
    let us = p.stm as usize;
    let t = ep_square(p);
    let cands = pawn_att(bit(t), us ^ 1) & p.col[us] & p.pc[PAWN];
    // at most two candidates: the squares left and right of the pushed pawn
    let f = t & 7;
    let r = if us == 0 { 4 } else { 3 };
    let mut any = false;
    if f > 0 {
        let s = r * 8 + f - 1;
        any |= (cands & bit(s) != 0) & legal(p, s, t, 0);
    }
    if f < 7 {
        let s = r * 8 + f + 1;
        any |= (cands & bit(s) != 0) & legal(p, s, t, 0);
    }
    any
}

/// FIDE position identity (C13).
pub fn same_position(a: &Pos, b: &Pos) -> bool {
    let ea = if ep_capturable(a) { a.ep } else { NONE };
    let eb = if ep_capturable(b) { b.ep } else { NONE };
    a.core_same(b) & (ea == eb)
}

/// Position after a null move.
pub fn null_move(p: &Pos) -> Pos {
    let mut n = *p;
    n.stm ^= 1;
    n.ep = NONE;
    n
}

pub fn clocks_after_null(p: &Pos, half: u8, full: u16) -> (u8, u16) {
    let nh = if half >= 100 { 100 } else { half + 1 };
    let nf = if p.stm == 1 { if full == u16::MAX { full } else { full + 1 } } else { full };
    (nh, nf)
}

// ---------------------------------------------------------------- hashing

/// The per-feature keys (obtained behaviourally from the real writers).
pub struct Keys {
    pub piece: [[[u64; 64]; 6]; 2],
    pub castle: [[[u64; 8]; 2]; 2],
    pub ep: [u64; 8],
    pub side: u64,
}

pub fn zobrist(p: &Pos, k: &Keys) -> u64 {
    let mut h = 0u64;
    let mut c = 0;
    while c < 2 {
        let mut i = 0;
        while i < 6 {
            let b = p.pc[i] & p.col[c];
            let mut s = 0;
            while s < 64 {
                h ^= k.piece[c][i][s] & mask((b >> s) & 1 != 0);
                s += 1;
            }
            i += 1;
        }
        let mut w = 0;
        while w < 2 {
            let f = p.castle[c][w];
            let mut j = 0;
            while j < 8 {
                h ^= k.castle[c][w][j] & mask(f == j as u8);
                j += 1;
            }
            w += 1;
        }
        c += 1;
    }
    let mut j = 0;
    while j < 8 {
        h ^= k.ep[j] & mask(p.ep == j as u8);
        j += 1;
    }
    h ^ (k.side & mask(p.stm == 1))
}

/// XOR of the keys of the features present in exactly one of `a` and `b`.
/// (`zobrist(a) ^ zobrist(b) == zobrist_delta(a, b)`: lemma `c10_delta_lemma`.)
pub fn zobrist_delta(a: &Pos, b: &Pos, k: &Keys) -> u64 {
    let mut h = 0u64;
    let mut c = 0;
    while c < 2 {
        let mut i = 0;
        while i < 6 {
            let d = (a.pc[i] & a.col[c]) ^ (b.pc[i] & b.col[c]);
            let mut s = 0;
            while s < 64 {
                h ^= k.piece[c][i][s] & mask((d >> s) & 1 != 0);
                s += 1;
            }
            i += 1;
        }
        let mut w = 0;
        while w < 2 {
            let (fa, fb) = (a.castle[c][w], b.castle[c][w]);
            let mut j = 0;
            while j < 8 {
                h ^= k.castle[c][w][j] & mask((fa == j as u8) != (fb == j as u8));
                j += 1;
            }
            w += 1;
        }
        c += 1;
    }
    let mut j = 0;
    while j < 8 {
        h ^= k.ep[j] & mask((a.ep == j as u8) != (b.ep == j as u8));
        j += 1;
    }
    h ^ (k.side & mask(a.stm != b.stm))
}
