//! C17 — `PieceMoves`: iteration, length, emptiness, membership.
//!
//! Model: the moves of a batch are, for each destination in ascending square
//! order, the four promotions N,B,R,Q when the piece is a pawn and the
//! destination is on rank 1 or 8, and one plain move otherwise.

use crate::nd::Nd;
use crate::vcover;
use crate::refm::{RANK_1, RANK_8};
use crate::sym::*;
use cozy_chess::*;

const PROMO: u64 = RANK_1 | RANK_8;

fn sym_pm<N: Nd>(n: &mut N) -> (PieceMoves, u8, u8, u64) {
    let pc = n.u8();
    let from = n.u8();
    let to = n.u64();
    n.assume(pc < 6);
    n.assume(from < 64);
    (PieceMoves { piece: piece(pc), from: sq(from), to: BitBoard(to) }, pc, from, to)
}

/// Number of moves the model enumerates.
fn model_len(pc: u8, to: u64) -> usize {
    if pc == 0 {
        ((to & !PROMO).count_ones() + 4 * (to & PROMO).count_ones()) as usize
    } else {
        to.count_ones() as usize
    }
}

/// Is (f,t,p) one of the moves the model enumerates?
fn model_has(pc: u8, from: u8, to: u64, f: u8, t: u8, p: u8) -> bool {
    let on = (to >> t) & 1 != 0;
    let promo_sq = pc == 0 && (PROMO >> t) & 1 != 0;
    let shape = if promo_sq { p >= 2 && p <= 5 } else { p == 0 };
    f == from && on && shape
}

pub fn len_empty<N: Nd>(n: &mut N) {
    let (pm, pc, _from, to) = sym_pm(n);
    assert!(pm.len() == model_len(pc, to));
    assert!(pm.is_empty() == (model_len(pc, to) == 0));
    let it = pm.into_iter();
    assert!(it.len() == model_len(pc, to));
    assert!(it.size_hint() == (model_len(pc, to), Some(model_len(pc, to))));
    vcover!(pc == 0 && to & PROMO != 0 && to & !PROMO != 0, "pawn with promotion and plain destinations");
}

pub fn has<N: Nd>(n: &mut N) {
    let (pm, pc, from, to) = sym_pm(n);
    let (f, t, p) = sym_move(n);
    assert!(pm.has(mv(f, t, p)) == model_has(pc, from, to, f, t, p));
    vcover!(pm.has(mv(f, t, p)) && p != 0, "a promotion is a member");
    vcover!(!pm.has(mv(f, t, p)) && f == from && (to >> t) & 1 != 0, "destination present but shape wrong");
}

/// One inductive step of iteration from an arbitrary consistent state.
/// Invariant: `promotion <= 3`, and `promotion > 0` only while the lowest
/// destination is a pawn promotion square.
pub fn iter_step<N: Nd>(n: &mut N) {
    let (pm, pc, from, to) = sym_pm(n);
    let j = n.u8();
    let low = if to == 0 { 64 } else { to.trailing_zeros() as u8 };
    let low_promo = pc == 0 && to != 0 && (PROMO >> low) & 1 != 0;
    n.assume(j <= 3);
    n.assume(j == 0 || low_promo);
    let mut it = PieceMovesIter::verif_from_raw(pm, j);
    // remaining length of the state = model length minus promotions already given
    let before = model_len(pc, to) - j as usize;
    assert!(it.len() == before);
    assert!(it.size_hint() == (before, Some(before)));
    let got = it.next();
    let (pm2, j2) = it.verif_raw();
    if to == 0 {
        assert!(got.is_none());
        assert!(pm2.to.0 == 0 && j2 == 0);
    } else {
        let expect_p = if low_promo { j + 2 } else { 0 };
        assert!(got == Some(mv(from, low, expect_p)));
        // successor state per the model
        let (to2, jn) = if low_promo && j < 3 { (to, j + 1) } else { (to & (to - 1), 0) };
        assert!(pm2.to.0 == to2 && j2 == jn);
        assert!(pm2.piece == pm.piece && pm2.from == pm.from);
        assert!(it.len() == before - 1);
        // the yielded move is a member, and it is the least not yet yielded
        assert!(pm.has(got.unwrap()));
    }
    vcover!(low_promo && j == 3, "last promotion of a square");
    vcover!(to != 0 && !low_promo, "plain step");
}

/// The base case: `into_iter` starts in the state (all destinations, 0).
pub fn iter_base<N: Nd>(n: &mut N) {
    let (pm, _pc, _from, to) = sym_pm(n);
    let it = pm.into_iter();
    let (pm0, j0) = it.verif_raw();
    assert!(pm0 == pm && pm0.to.0 == to && j0 == 0);
}

/// Cross-check of the invariant through the public API only: full iteration
/// of batches with at most 3 destinations yields exactly the model sequence.
pub fn iter_full3<N: Nd>(n: &mut N) {
    let (pm, pc, from, to) = sym_pm(n);
    n.assume(to.count_ones() <= 3);
    let (f, t, p) = sym_move(n);
    let total = model_len(pc, to);
    let mut count = 0usize;
    let mut seen = 0u32;
    let mut last_key: u32 = 0;
    let mut first = true;
    for m in pm {
        let key = (m.to as u32) * 8 + promo_code(m.promotion) as u32;
        assert!(first || key > last_key);
        first = false;
        last_key = key;
        assert!(model_has(pc, from, to, m.from as u8, m.to as u8, promo_code(m.promotion)));
        if m == mv(f, t, p) {
            seen += 1;
        }
        count += 1;
    }
    assert!(count == total);
    assert!(seen == model_has(pc, from, to, f, t, p) as u32);
    vcover!(count == 12, "three promotion squares fully iterated");
}

crate::proofs! {
    c17_len_empty => len_empty;
    c17_has => has;
    c17_iter_step => iter_step;
    c17_iter_base => iter_base;
    #[kani::unwind(14)]
    c17_iter_full3 => iter_full3;
}
