//! C19 — coordinates and their text forms.

use crate::nd::Nd;
use crate::vcover;
use crate::sym::*;
use crate::util::*;
use core::fmt::Write;
use cozy_chess::*;

fn sym_sq<N: Nd>(n: &mut N) -> u8 {
    let s = n.u8();
    n.assume(s < 64);
    s
}

/// Construction, decomposition, flips and colour-relative views.
pub fn coords<N: Nd>(n: &mut N) {
    let s = sym_sq(n);
    let f = n.u8();
    let r = n.u8();
    let c = n.u8();
    n.assume(f < 8 && r < 8 && c < 2);
    let q = Square::new(file(f), rank(r));
    assert!(q as u8 == r * 8 + f);
    assert!(q.file() as u8 == f && q.rank() as u8 == r);
    let x = sq(s);
    assert!(x.file() as u8 == s & 7 && x.rank() as u8 == s >> 3);
    assert!(Square::new(x.file(), x.rank()) == x);
    assert!(x.flip_file() as u8 == (s >> 3) * 8 + (7 - (s & 7)));
    assert!(x.flip_rank() as u8 == (7 - (s >> 3)) * 8 + (s & 7));
    assert!(x.relative_to(color(c)) == if c == 0 { x } else { x.flip_rank() });
    assert!(file(f).flip() as u8 == 7 - f);
    assert!(rank(r).flip() as u8 == 7 - r);
    assert!(rank(r).relative_to(color(c)) as u8 == if c == 0 { r } else { 7 - r });
    assert!(!color(c) == color(1 - c));
    // indexes
    let i = n.u64() as usize;
    assert!(Square::try_index(i).map(|v| v as usize) == if i < 64 { Some(i) } else { None });
    assert!(File::try_index(i).map(|v| v as usize) == if i < 8 { Some(i) } else { None });
    assert!(Rank::try_index(i).map(|v| v as usize) == if i < 8 { Some(i) } else { None });
    assert!(Piece::try_index(i).map(|v| v as usize) == if i < 6 { Some(i) } else { None });
    assert!(Color::try_index(i).map(|v| v as usize) == if i < 2 { Some(i) } else { None });
}

/// `try_offset` for every square and every offset pair, under the build
/// profile Kani models (overflow checks on): never panics, `None` exactly
/// when the target is off the board.
pub fn try_offset<N: Nd>(n: &mut N) {
    let s = sym_sq(n);
    let df = n.u8() as i8;
    let dr = n.u8() as i8;
    let nf = (s & 7) as i16 + df as i16;
    let nr = (s >> 3) as i16 + dr as i16;
    let inside = nf >= 0 && nf < 8 && nr >= 0 && nr < 8;
    let got = sq(s).try_offset(df, dr);
    if inside {
        assert!(got.map(|q| q as i16) == Some(nr * 8 + nf));
    } else {
        assert!(got.is_none());
    }
    vcover!(df == 127 && dr == 127, "extreme offsets");
    vcover!(inside && df < 0 && dr > 0, "inside with mixed signs");
}

/// `offset` returns the square when it exists (panic case: `offset_panics`).
pub fn offset_ok<N: Nd>(n: &mut N) {
    let s = sym_sq(n);
    let df = n.u8() as i8;
    let dr = n.u8() as i8;
    let nf = (s & 7) as i16 + df as i16;
    let nr = (s >> 3) as i16 + dr as i16;
    n.assume(nf >= 0 && nf < 8 && nr >= 0 && nr < 8);
    assert!(sq(s).offset(df, dr) as i16 == nr * 8 + nf);
}

// ------------------------------------------------------------------ text

fn file_ch(b: u8) -> Option<u8> {
    if b >= b'a' && b <= b'h' {
        Some(b - b'a')
    } else {
        None
    }
}

fn rank_ch(b: u8) -> Option<u8> {
    if b >= b'1' && b <= b'8' {
        Some(b - b'1')
    } else {
        None
    }
}

fn piece_ch(b: u8) -> Option<u8> {
    match b {
        b'p' => Some(0),
        b'n' => Some(1),
        b'b' => Some(2),
        b'r' => Some(3),
        b'q' => Some(4),
        b'k' => Some(5),
        _ => None,
    }
}

/// Every value of the small types formats to its expected text and parses back.
pub fn fmt_parse_small<N: Nd>(n: &mut N) {
    let s = sym_sq(n);
    let mut b = Buf::<4>::new();
    write!(b, "{}", sq(s)).unwrap();
    assert!(!b.overflow && b.len == 2 && b.b[0] == b'a' + (s & 7) && b.b[1] == b'1' + (s >> 3));
    assert!(b.as_str().parse::<Square>().ok() == Some(sq(s)));

    let f = s & 7;
    let mut b = Buf::<4>::new();
    write!(b, "{}", file(f)).unwrap();
    assert!(!b.overflow && b.len == 1 && b.b[0] == b'a' + f);
    assert!(b.as_str().parse::<File>().ok() == Some(file(f)));
    assert!(char::from(file(f)) == (b'a' + f) as char);

    let r = s >> 3;
    let mut b = Buf::<4>::new();
    write!(b, "{}", rank(r)).unwrap();
    assert!(!b.overflow && b.len == 1 && b.b[0] == b'1' + r);
    assert!(b.as_str().parse::<Rank>().ok() == Some(rank(r)));

    let p = n.u8();
    n.assume(p < 6);
    let mut b = Buf::<4>::new();
    write!(b, "{}", piece(p)).unwrap();
    assert!(!b.overflow && b.len == 1 && piece_ch(b.b[0]) == Some(p));
    assert!(b.as_str().parse::<Piece>().ok() == Some(piece(p)));

    let c = n.u8();
    n.assume(c < 2);
    let mut b = Buf::<4>::new();
    write!(b, "{}", color(c)).unwrap();
    assert!(!b.overflow && b.len == 1 && b.b[0] == if c == 0 { b'w' } else { b'b' });
    assert!(b.as_str().parse::<Color>().ok() == Some(color(c)));
}

/// Every legally shaped move survives format-then-parse and prints as expected.
pub fn fmt_parse_move<N: Nd>(n: &mut N) {
    let (f, t, p) = sym_move(n);
    n.assume(p == 0 || (p >= 2 && p <= 5));
    let m = mv(f, t, p);
    let mut b = Buf::<8>::new();
    write!(b, "{}", m).unwrap();
    let want_len = if p == 0 { 4 } else { 5 };
    assert!(!b.overflow && b.len == want_len);
    assert!(b.b[0] == b'a' + (f & 7) && b.b[1] == b'1' + (f >> 3));
    assert!(b.b[2] == b'a' + (t & 7) && b.b[3] == b'1' + (t >> 3));
    assert!(p == 0 || piece_ch(b.b[4]) == Some(p - 1));
    assert!(b.as_str().parse::<Move>().ok() == Some(m));
}

/// The parsers of the one-character types on every string of at most 2 bytes
/// (that is: every string of at most 2 ASCII bytes and every single 2-byte scalar).
pub fn parse_small<N: Nd>(n: &mut N) {
    let (b, len) = sym_str::<2, N>(n);
    let s = match core::str::from_utf8(&b[..len]) {
        Ok(s) => s,
        Err(_) => return,
    };
    let one = len == 1;
    assert!(s.parse::<File>().ok().map(|v| v as u8) == if one { file_ch(b[0]) } else { None });
    assert!(s.parse::<Rank>().ok().map(|v| v as u8) == if one { rank_ch(b[0]) } else { None });
    assert!(s.parse::<Piece>().ok().map(|v| v as u8) == if one { piece_ch(b[0]) } else { None });
    let col = if one && b[0] == b'w' {
        Some(0)
    } else if one && b[0] == b'b' {
        Some(1)
    } else {
        None
    };
    assert!(s.parse::<Color>().ok().map(|v| v as u8) == col);
    vcover!(len == 2 && b[0] >= 0xC2, "a two-byte scalar");
}

/// `Square::from_str` on every string of at most 3 bytes.
pub fn parse_square<N: Nd>(n: &mut N) {
    let (b, len) = sym_str::<3, N>(n);
    let s = match core::str::from_utf8(&b[..len]) {
        Ok(s) => s,
        Err(_) => return,
    };
    let want = match (len, file_ch(b[0]), rank_ch(b[1])) {
        (2, Some(f), Some(r)) => Some(r * 8 + f),
        _ => None,
    };
    assert!(s.parse::<Square>().ok().map(|v| v as u8) == want);
    vcover!(want.is_some(), "a square parses");
    vcover!(len == 3 && file_ch(b[0]).is_some() && rank_ch(b[1]).is_some(), "trailing byte");
}

/// `Move::from_str` on every string of at most 6 bytes: accepted exactly on
/// `[a-h][1-8][a-h][1-8][nbrq]?`, with the denoted value.
pub fn parse_move<N: Nd>(n: &mut N) {
    let (b, len) = sym_str::<6, N>(n);
    let s = match core::str::from_utf8(&b[..len]) {
        Ok(s) => s,
        Err(_) => return,
    };
    let coords = match (file_ch(b[0]), rank_ch(b[1]), file_ch(b[2]), rank_ch(b[3])) {
        (Some(a), Some(c), Some(d), Some(e)) if len >= 4 => Some((c * 8 + a, e * 8 + d)),
        _ => None,
    };
    let want = match coords {
        Some((f, t)) if len == 4 => Some((f, t, 0)),
        Some((f, t)) if len == 5 => match piece_ch(b[4]) {
            Some(p) if p >= 1 && p <= 4 => Some((f, t, p + 1)),
            _ => None,
        },
        _ => None,
    };
    let got = s.parse::<Move>().ok().map(|m| (m.from as u8, m.to as u8, promo_code(m.promotion)));
    assert!(got == want);
    vcover!(want.is_some() && len == 5, "a promotion parses");
    vcover!(len == 6 && coords.is_some(), "six bytes with a well formed prefix");
}

crate::proofs! {
    #[kani::unwind(2)]
    c19_coords => coords;
    #[kani::unwind(2)]
    c19_try_offset => try_offset;
    #[kani::unwind(2)]
    c19_offset_ok => offset_ok;
    #[kani::unwind(6)]
    c19_fmt_parse_small => fmt_parse_small;
    #[kani::unwind(8)]
    c19_fmt_parse_move => fmt_parse_move;
    #[kani::unwind(4)]
    c19_parse_small => parse_small;
    #[kani::unwind(5)]
    c19_parse_square => parse_square;
    #[kani::unwind(8)]
    c19_parse_move => parse_move;
}
