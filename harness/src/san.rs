//! C20 — SAN writer and reader on boards with at most `nmax` pieces (bounded:
//! both use full-mask generation and `core::fmt`). Not part of the quick tier.
//!
//! Writer: the text equals the reference SAN (piece letter, minimal file/rank
//! disambiguation among legal same-kind moves, capture mark, promotion,
//! O-O / O-O-O, + / #); reader: maps that text back to the move.

use crate::nd::Nd;
use crate::refm::{self, bit, Pos, KING, PAWN};
use crate::sym::*;
use crate::util::Buf;
use crate::vcover;
use core::fmt::Write;
use cozy_chess::util::*;
use cozy_chess::*;

struct Out {
    b: [u8; 10],
    len: usize,
}

impl Out {
    fn push(&mut self, c: u8) {
        if self.len < 10 {
            self.b[self.len] = c;
        }
        self.len += 1;
    }
}

/// Reference SAN without the check/mate suffix.
fn ref_san(p: &Pos, f: u8, t: u8, pr: u8) -> Out {
    let us = p.stm as usize;
    let mut o = Out { b: [0; 10], len: 0 };
    let kind = refm::kind_at(p, bit(f));
    let castle = p.col[us] & bit(t) != 0;
    if castle {
        o.push(b'O');
        o.push(b'-');
        o.push(b'O');
        if p.castle[us][1] == (t & 7) && p.castle[us][0] != (t & 7) {
            o.push(b'-');
            o.push(b'O');
        }
        return o;
    }
    let np = refm::make_move(p, f, t, pr);
    let capture = np.occ().count_ones() < p.occ().count_ones();
    if kind != PAWN {
        o.push([b'P', b'N', b'B', b'R', b'Q', b'K'][kind]);
    }
    // other own pieces of the same kind that can legally reach t
    let mut others = p.pc[kind] & p.col[us] & !bit(f);
    let mut ambiguous = false;
    let mut file_unique = true;
    let mut rank_unique = true;
    let mut i = 0;
    while i < 3 {
        if others != 0 {
            let s = others.trailing_zeros() as u8;
            others &= others - 1;
            if refm::legal(p, s, t, pr) {
                ambiguous = true;
                if (s & 7) == (f & 7) {
                    file_unique = false;
                }
                if (s >> 3) == (f >> 3) {
                    rank_unique = false;
                }
            }
        }
        i += 1;
    }
    if kind == PAWN && capture {
        ambiguous = true;
    }
    if ambiguous {
        if file_unique {
            o.push(b'a' + (f & 7));
        } else if rank_unique {
            o.push(b'1' + (f >> 3));
        } else {
            o.push(b'a' + (f & 7));
            o.push(b'1' + (f >> 3));
        }
    }
    if capture {
        o.push(b'x');
    }
    o.push(b'a' + (t & 7));
    o.push(b'1' + (t >> 3));
    if pr != 0 {
        o.push(b'=');
        o.push([b'P', b'N', b'B', b'R', b'Q', b'K'][(pr - 1) as usize]);
    }
    o
}

pub fn san_roundtrip<N: Nd>(n: &mut N, nmax: u32, cube: u8) {
    let (p, half, full) = sym_accepted(n);
    n.assume(p.occ().count_ones() <= nmax);
    let (f, t, pr) = sym_move(n);
    n.assume(refm::legal(&p, f, t, pr));
    let us = p.stm as usize;
    let kind = refm::kind_at(&p, bit(f));
    let castle = p.col[us] & bit(t) != 0;
    match cube {
        0 => n.assume(kind == PAWN),
        1 => n.assume(kind != PAWN && kind != KING),
        2 => n.assume(kind == KING && !castle),
        3 => n.assume(castle),
        _ => {}
    }
    // a second arbitrary move, in the successor, for the mate suffix
    let (f2, t2, pr2) = sym_move(n);
    if n.native() {
        println!("witness: board \"{}\" move {}", fen(&p, half, full), mv(f, t, pr));
    }
    let b = board_of(&p, half, full, n.u64());
    let m = mv(f, t, pr);
    let mut buf = Buf::<12>::new();
    write!(buf, "{}", display_san_move(&b, m)).unwrap();
    assert!(!buf.overflow);
    let want = ref_san(&p, f, t, pr);
    assert!(want.len <= 10);
    let np = refm::make_move(&p, f, t, pr);
    let (ck, _) = refm::checkers_and_pins(&np, np.stm as usize);
    // body
    assert!(buf.len >= want.len);
    let mut i = 0;
    while i < 10 {
        if i < want.len {
            assert!(buf.b[i] == want.b[i]);
        }
        i += 1;
    }
    // suffix
    if ck == 0 {
        assert!(buf.len == want.len);
    } else {
        assert!(buf.len == want.len + 1);
        let sfx = buf.b[want.len];
        assert!(sfx == b'+' || sfx == b'#');
        // '#' => no legal reply ((f2,t2,pr2) is arbitrary)
        assert!(!(sfx == b'#' && refm::legal(&np, f2, t2, pr2)));
        // '+' => some legal reply: the real generator's first batch on the successor holds one
        if sfx == b'+' {
            let (nh, nf) = refm::clocks_after_move(&p, f, t, half, full);
            let nb = board_of(&np, nh, nf, 0);
            let mut w: Option<PieceMoves> = None;
            nb.generate_moves(|pm| {
                w = Some(pm);
                true
            });
            match w {
                None => assert!(false),
                Some(pm) => {
                    let to = pm.to.0.trailing_zeros() as u8;
                    let promo = pm.piece == Piece::Pawn && ((refm::RANK_1 | refm::RANK_8) >> to) & 1 != 0;
                    assert!(pm.to.0 != 0 && refm::legal(&np, pm.from as u8, to, if promo { 2 } else { 0 }));
                }
            }
        }
    }
    // reader inverts the writer
    let back = parse_san_move(&b, buf.as_str());
    assert!(back.ok() == Some(m));
    vcover!(ck != 0 && buf.b[want.len] == b'#', "a mating move");
    vcover!(want.len >= 5, "@san_[01] a long SAN");
}

crate::bproofs! {
    c20_san_n3_pawn => |n: &mut _| san_roundtrip(n, 3, 0);
    c20_san_n3_piece => |n: &mut _| san_roundtrip(n, 3, 1);
    c20_san_n3_king => |n: &mut _| san_roundtrip(n, 3, 2);
    c20_san_n4_pawn => |n: &mut _| san_roundtrip(n, 4, 0);
    c20_san_n4_piece => |n: &mut _| san_roundtrip(n, 4, 1);
    c20_san_n4_king => |n: &mut _| san_roundtrip(n, 4, 2);
    c20_san_n4_castle => |n: &mut _| san_roundtrip(n, 4, 3);
}
