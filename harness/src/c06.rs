//! C06 / C09 (and the constructor half of C03): validators, builder, start positions.
//!
//!  * per-validator equivalence on raw boards: each real validator == its
//!    reference counterpart written from the property statement (lemma L-acc);
//!  * `fresh`: the constructor's `calculate_checkers_and_pins` == reference;
//!  * `build` sequencing on a fully symbolic 64-cell builder with the validators
//!    replaced by stubs answering what the reference predicates say (which the
//!    per-validator harnesses prove the real ones say): Ok exactly on accepted
//!    states, fields/hash of the result equal the builder's content, the error
//!    names the first wrong aspect;
//!  * `from_board` reproduces position and clocks;
//!  * Chess960 start configurations equal an independent Scharnagl decoding and
//!    are accepted.

use crate::brd::aligned_sliders;
use crate::nd::Nd;
use crate::refm::{self, bit, Pos, NONE};
use crate::sym::*;
use crate::vcover;
use cozy_chess::*;

fn one_king_each(p: &Pos) -> bool {
    (p.pc[refm::KING] & p.col[0]).count_ones() == 1 && (p.pc[refm::KING] & p.col[1]).count_ones() == 1
}

/// `board_is_valid` == reference, on every raw board (derived fields arbitrary).
/// `a`: bound on sliders of the side to move aligned with the other king.
pub fn v_board<N: Nd>(n: &mut N, a: u32) {
    let p = sym_pos(n);
    if a < 16 {
        n.assume(aligned_sliders(&p, (p.stm ^ 1) as usize).count_ones() <= a);
    }
    if n.native() {
        println!("witness: raw board \"{}\"", fen(&p, 0, 1));
    }
    let b = board_raw(&p, n.u8(), n.u16(), n.u64(), n.u64(), n.u64());
    let want = refm::board_ok(&p);
    assert!(b.verif_validator(0) == want);
    vcover!(want, "a valid board");
    vcover!(!want && refm::placement_ok(&p), "placement fine but the side not to move is in check");
    vcover!(!want && refm::placement_ok(&p) && refm::king_att(p.king_bb(0)) & p.king_bb(1) != 0, "adjacent kings");
}

/// `calculate_checkers_and_pins(c)` == reference for colour `c` (the constructor
/// half of C03: a freshly constructed board reports the reference checkers/pins).
pub fn v_fresh<N: Nd>(n: &mut N, a: u32, c: u8) {
    let p = sym_pos(n);
    n.assume(one_king_each(&p));
    // raw boards may hold more than 16 pieces of a colour; the constructors only reach this code after the piece-count
    // checks, so a = 16 is "no bound" for every board that can actually be constructed
    n.assume(aligned_sliders(&p, c as usize).count_ones() <= a);
    if n.native() {
        println!("witness: raw board \"{}\" colour {}", fen(&p, 0, 1), c);
    }
    let b = board_raw(&p, n.u8(), n.u16(), n.u64(), n.u64(), n.u64());
    let (ck, pin) = b.verif_calculate_checkers_and_pins(color(c));
    let (rck, rpin) = refm::checkers_and_pins(&p, c as usize);
    assert!(ck.0 == rck);
    assert!(pin.0 == rpin);
    vcover!(rck.count_ones() == 2 && rpin != 0, "double check with a pin");
}

/// `checkers_and_pins_are_valid` == "stored fields equal the reference and fewer than three checkers".
pub fn v_ckpin<N: Nd>(n: &mut N, a: u32) {
    let p = sym_pos(n);
    n.assume(one_king_each(&p));
    n.assume(aligned_sliders(&p, p.stm as usize).count_ones() <= a);
    if n.native() {
        println!("witness: raw board \"{}\"", fen(&p, 0, 1));
    }
    let (fc, fp) = (n.u64(), n.u64());
    let b = board_raw(&p, n.u8(), n.u16(), n.u64(), fc, fp);
    let (sck, spin) = refm::checkers_and_pins(&p, p.stm as usize);
    assert!(b.verif_validator(1) == (fc == sck && fp == spin && sck.count_ones() < 3));
    vcover!(fc == sck && fp == spin && sck.count_ones() == 3, "three checkers stored correctly");
}

/// `castle_rights_are_valid` == reference on boards with one king per side.
pub fn v_castle<N: Nd>(n: &mut N) {
    let p = sym_pos(n);
    n.assume(one_king_each(&p));
    if n.native() {
        println!("witness: raw board \"{}\"", fen(&p, 0, 1));
    }
    let b = board_raw(&p, n.u8(), n.u16(), n.u64(), n.u64(), n.u64());
    let want = refm::castle_ok(&p);
    assert!(b.verif_validator(2) == want);
    vcover!(want && p.castle[0][0] < 8 && p.castle[0][0] != 7, "a Chess960 short right");
    vcover!(!want && p.castle[1][1] < 8, "a rejected long right");
}

/// `en_passant_is_valid` == reference on boards that passed the earlier stages
/// (board valid, derived fields correct, fewer than three checkers).
pub fn v_ep<N: Nd>(n: &mut N) {
    let p = sym_pos(n);
    n.assume(refm::board_ok(&p));
    let (ck, _) = refm::checkers_and_pins(&p, p.stm as usize);
    n.assume(ck.count_ones() < 3);
    if n.native() {
        println!("witness: raw board \"{}\"", fen(&p, 0, 1));
    }
    let b = board_of(&p, n.u8(), n.u16(), n.u64());
    let want = refm::ep_ok(&p);
    assert!(b.verif_validator(3) == want);
    vcover!(want && p.ep < 8 && ck != 0, "en passant file with the mover in check");
    vcover!(!want && p.ep < 8 && ck != 0 && p.occ() & ep_squares(&p) == 0, "check that the push cannot have caused");
}

fn ep_squares(p: &Pos) -> u64 {
    let f = p.ep & 7;
    if p.stm == 1 {
        bit(8 + f) | bit(16 + f)
    } else {
        bit(48 + f) | bit(40 + f)
    }
}

/// Clock validators.
pub fn v_clocks<N: Nd>(n: &mut N) {
    let p = sym_pos(n);
    let (h, f) = (n.u8(), n.u16());
    let b = board_raw(&p, h, f, n.u64(), n.u64(), n.u64());
    assert!(b.verif_validator(4) == (h <= 100));
    assert!(b.verif_validator(5) == (f >= 1));
}

// ------------------------------------------------------------------ build() sequencing

static mut V_BOARD: bool = false;
static mut V_CKPIN: bool = false;
static mut V_CASTLE: bool = false;
static mut V_EP: bool = false;
static mut CK: u64 = 0;
static mut PIN: u64 = 0;

// Each stub also checks that the board it is asked about is in the state the real
// validator needs: placement and side written before `board_is_valid`, derived
// checkers/pins stored before the later validators, rights / en-passant file written
// before their validators (a reordering inside build() is caught here).
static mut X_PC: [u64; 6] = [0; 6];
static mut X_COL: [u64; 2] = [0; 2];
static mut X_STM: u8 = 0;
static mut X_CASTLE: [[u8; 2]; 2] = [[8; 2]; 2];
static mut X_EP: u8 = 8;

fn placed(b: &Board) -> bool {
    let q = pos_of(b);
    let mut ok = true;
    unsafe {
        let mut i = 0;
        while i < 6 {
            ok &= q.pc[i] == X_PC[i];
            i += 1;
        }
        ok &= q.col[0] == X_COL[0] && q.col[1] == X_COL[1] && q.stm == X_STM;
    }
    ok
}

pub fn stub_board_is_valid(b: &Board) -> bool {
    assert!(placed(b));
    unsafe { V_BOARD }
}
pub fn stub_ckpin_valid(b: &Board) -> bool {
    assert!(placed(b));
    assert!(unsafe { b.checkers().0 == CK && b.pinned().0 == PIN });
    unsafe { V_CKPIN }
}
pub fn stub_castle_valid(b: &Board) -> bool {
    assert!(placed(b));
    assert!(unsafe { refm::castle_same(&pos_of(b).castle, &X_CASTLE) });
    unsafe { V_CASTLE }
}
pub fn stub_ep_valid(b: &Board) -> bool {
    assert!(placed(b));
    assert!(unsafe { b.checkers().0 == CK && b.pinned().0 == PIN });
    assert!(unsafe { pos_of(b).ep == X_EP });
    unsafe { V_EP }
}
pub fn stub_calc(_b: &Board, _c: Color) -> (BitBoard, BitBoard) {
    unsafe { (BitBoard(CK), BitBoard(PIN)) }
}

/// A fully symbolic builder state and its content as a reference position.
fn sym_builder<N: Nd>(n: &mut N, ranks: u8) -> (BoardBuilder, Pos, u8 /* ep square or 64 */) {
    let mut bb = BoardBuilder::empty();
    let mut p = Pos { pc: [0; 6], col: [0; 2], stm: 0, castle: [[NONE; 2]; 2], ep: NONE };
    let mut s = 0u8;
    while s < 64 {
        // cells on ranks outside `ranks` are empty (bounded variant for the quick tier)
        let cell = if (ranks >> (s >> 3)) & 1 != 0 { n.u8() } else { 12 };
        n.assume(cell <= 12);
        if cell < 12 {
            let (pc, c) = (cell % 6, cell / 6);
            bb.board[s as usize] = Some((piece(pc), color(c)));
            p.pc[pc as usize] |= bit(s);
            p.col[c as usize] |= bit(s);
        }
        s += 1;
    }
    let stm = n.u8();
    n.assume(stm < 2);
    bb.side_to_move = color(stm);
    p.stm = stm;
    let mut c = 0;
    while c < 2 {
        let (sh, lo) = (n.u8(), n.u8());
        n.assume(sh <= 8 && lo <= 8);
        bb.castle_rights[c] = CastleRights { short: opt_file(sh), long: opt_file(lo) };
        p.castle[c] = [sh, lo];
        c += 1;
    }
    let eps = n.u8();
    n.assume(eps <= 64);
    bb.en_passant = if eps < 64 { Some(sq(eps)) } else { None };
    bb.halfmove_clock = n.u8();
    bb.fullmove_number = n.u16();
    (bb, p, eps)
}

/// `build()`: classification, error attribution and content of the result.
pub fn build_seq<N: Nd>(n: &mut N, with_hash: bool, ranks: u8) {
    let (bb, mut p, eps) = sym_builder(n, ranks);
    let (half, full) = (bb.halfmove_clock, bb.fullmove_number);
    // what the (stubbed) validators answer = what the reference says about the content
    let board_ok = refm::board_ok(&p);
    let (ck, pin) = refm::checkers_and_pins(&p, p.stm as usize);
    let ck_ok = ck.count_ones() < 3;
    let castle_ok = refm::castle_ok(&p);
    // en passant: the square must be on the mover's sixth rank; then the file is validated
    let ep_rank_ok = eps == 64 || (eps >> 3) == if p.stm == 0 { 5 } else { 2 };
    if eps < 64 {
        p.ep = eps & 7;
    }
    let ep_ok = ep_rank_ok && refm::ep_ok(&p);
    unsafe {
        X_PC = p.pc;
        X_COL = p.col;
        X_STM = p.stm;
        X_CASTLE = p.castle;
        X_EP = p.ep;
        V_BOARD = board_ok;
        V_CKPIN = ck_ok;
        V_CASTLE = castle_ok;
        V_EP = refm::ep_ok(&p);
        CK = ck;
        PIN = pin;
    }
    if n.native() {
        println!("witness: builder content \"{}\" ep square {}", fen(&p, half, full), eps);
    }
    let r = bb.build();
    let want_ok = board_ok && ck_ok && castle_ok && ep_ok && half <= 100 && full >= 1;
    assert!(r.is_ok() == want_ok);
    match r {
        Ok(b) => {
            assert!(pos_of(&b).same(&p));
            assert!(b.checkers().0 == ck && b.pinned().0 == pin);
            assert!(b.halfmove_clock() == half && b.fullmove_number() == full);
            if with_hash {
                let k = keys();
                assert!(b.hash() == refm::zobrist(&p, &k));
            }
            assert!(refm::accepts(&p, half, full));
        }
        Err(e) => {
            let stage = if !(board_ok && ck_ok) {
                0
            } else if !castle_ok {
                1
            } else if !ep_ok {
                2
            } else if half > 100 {
                3
            } else {
                4
            };
            let got = match e {
                BoardBuilderError::InvalidBoard => 0,
                BoardBuilderError::InvalidCastlingRights => 1,
                BoardBuilderError::InvalidEnPassant => 2,
                BoardBuilderError::InvalidHalfMoveClock => 3,
                BoardBuilderError::InvalidFullmoveNumber => 4,
            };
            assert!(got == stage);
        }
    }
    vcover!(want_ok && p.ep < 8, "@r1458|r148|r158|build_seq$|build_seq_hash an accepted state with an en passant square");
    vcover!(!want_ok && board_ok && ck_ok && castle_ok && !ep_rank_ok, "en passant square on the wrong rank");
    vcover!(!want_ok && board_ok && ck_ok && !castle_ok && p.castle[0][0] < 8, "right on the wrong side of the king or without rook");
    vcover!(want_ok && p.castle[0][0] < 8 && p.castle[1][1] < 8, "@r1458|r148|r158|build_seq$|build_seq_hash accepted with castling rights for both sides");
    vcover!(board_ok && !ck_ok, "three checkers");
}

/// `from_board` reproduces position and clocks of every accepted board
/// (`nmax`: bound on pieces per (colour, kind) loop, 16 = none).
pub fn from_board<N: Nd>(n: &mut N, nmax: u32) {
    let (p, half, full) = sym_accepted(n);
    if nmax < 16 {
        n.assume(p.col[0].count_ones() <= nmax && p.col[1].count_ones() <= nmax);
    }
    if n.native() {
        println!("witness: board \"{}\"", fen(&p, half, full));
    }
    let b = board_of(&p, half, full, n.u64());
    let bb = BoardBuilder::from_board(&b);
    let s = n.u8();
    n.assume(s < 64);
    let k = refm::kind_at(&p, bit(s));
    let want = if p.occ() & bit(s) == 0 {
        None
    } else {
        Some((piece(k as u8), color((p.col[1] & bit(s) != 0) as u8)))
    };
    assert!(bb.square(sq(s)) == want);
    assert!(bb.side_to_move == color(p.stm));
    assert!(bb.castle_rights == rights(&p));
    let eps = if p.ep < 8 { Some(sq(refm::ep_square(&p))) } else { None };
    assert!(bb.en_passant == eps);
    assert!(bb.halfmove_clock == half && bb.fullmove_number == full);
    vcover!(p.ep < 8 && p.stm == 1, "black to move with an en passant square");
}

// ------------------------------------------------------------------ start positions

/// Independent Scharnagl decoding on a plain array (files 0..8 -> piece index).
fn scharnagl(nr: u32) -> [u8; 8] {
    let mut r = [255u8; 8];
    let mut n = nr;
    r[(1 + 2 * (n % 4)) as usize] = 2; // light-squared bishop: b, d, f, h
    n /= 4;
    r[(2 * (n % 4)) as usize] = 2; // dark-squared bishop: a, c, e, g
    n /= 4;
    let q = n % 6;
    n /= 6;
    place_nth(&mut r, q as usize, 4);
    const KN: [(usize, usize); 10] = [(0, 1), (0, 2), (0, 3), (0, 4), (1, 2), (1, 3), (1, 4), (2, 3), (2, 4), (3, 4)];
    let (k1, k2) = KN[(n % 10) as usize];
    // both knights are placed relative to the same five free squares
    let a = nth_free(&r, k1);
    let b = nth_free(&r, k2);
    r[a] = 1;
    r[b] = 1;
    place_nth(&mut r, 0, 3);
    place_nth(&mut r, 0, 5);
    place_nth(&mut r, 0, 3);
    r
}

fn nth_free(r: &[u8; 8], k: usize) -> usize {
    let mut seen = 0;
    let mut i = 0;
    let mut out = 8;
    while i < 8 {
        if r[i] == 255 {
            if seen == k && out == 8 {
                out = i;
            }
            seen += 1;
        }
        i += 1;
    }
    out
}

fn place_nth(r: &mut [u8; 8], k: usize, pc: u8) {
    let i = nth_free(r, k);
    r[i] = pc;
}

/// The double Chess960 start builder equals the independent decoding for both
/// colours, grants exactly the rook files as rights, and its content is accepted.
pub fn startpos<N: Nd>(n: &mut N) {
    let w = n.u32();
    let b = n.u32();
    n.assume(w < 960 && b < 960);
    let bb = BoardBuilder::double_chess960_startpos(w, b);
    let cfg = [scharnagl(w), scharnagl(b)];
    let mut p = Pos { pc: [0; 6], col: [0; 2], stm: 0, castle: [[NONE; 2]; 2], ep: NONE };
    let mut c = 0;
    while c < 2 {
        let back = if c == 0 { 0 } else { 56 };
        let pawn = if c == 0 { 8 } else { 48 };
        let mut f = 0u8;
        let mut rooks = [NONE; 2];
        let mut nr = 0;
        while f < 8 {
            let pc = cfg[c][f as usize];
            assert!(pc < 6);
            p.pc[pc as usize] |= bit(back + f);
            p.col[c] |= bit(back + f);
            p.pc[0] |= bit(pawn + f);
            p.col[c] |= bit(pawn + f);
            if pc == 3 {
                rooks[nr] = f;
                nr += 1;
            }
            f += 1;
        }
        assert!(nr == 2);
        p.castle[c] = [rooks[1], rooks[0]];
        c += 1;
    }
    // the builder's content is exactly that position
    let s = n.u8();
    n.assume(s < 64);
    let k = refm::kind_at(&p, bit(s));
    let want = if p.occ() & bit(s) == 0 { None } else { Some((piece(k as u8), color((p.col[1] & bit(s) != 0) as u8))) };
    assert!(bb.square(sq(s)) == want);
    assert!(bb.castle_rights == rights(&p));
    assert!(bb.side_to_move == Color::White && bb.en_passant.is_none());
    assert!(bb.halfmove_clock == 0 && bb.fullmove_number == 1);
    // and it is an accepted state (so build() succeeds, by the sequencing harness)
    assert!(refm::accepts(&p, 0, 1));
    // bishops on opposite colours, king between the rooks
    vcover!(w == 518 && b == 0, "orthodox white against Scharnagl 0");
}

/// Public accessors agree with the position; the clock setters keep the board
/// accepted for in-range values (the out-of-range panics are `setters_panic`).
pub fn accessors_setters<N: Nd>(n: &mut N) {
    let (p, half, full) = sym_accepted(n);
    if n.native() {
        println!("witness: board \"{}\"", fen(&p, half, full));
    }
    let mut b = board_of(&p, half, full, n.u64());
    let s = n.u8();
    n.assume(s < 64);
    let sb = bit(s);
    let k = refm::kind_at(&p, sb);
    let occ = p.occ() & sb != 0;
    assert!(b.piece_on(sq(s)) == if occ { Some(piece(k as u8)) } else { None });
    assert!(b.color_on(sq(s)) == if !occ { None } else { Some(color((p.col[1] & sb != 0) as u8)) });
    assert!(b.occupied().0 == p.occ());
    let c = n.u8();
    n.assume(c < 2);
    assert!(b.king(color(c)).bitboard().0 == p.king_bb(c as usize));
    let pc = n.u8();
    n.assume(pc < 6);
    assert!(b.colored_pieces(color(c), piece(pc)).0 == p.pc[pc as usize] & p.col[c as usize]);
    assert!(b.side_to_move() == color(p.stm) && b.en_passant() == opt_file(p.ep));
    assert!(b.halfmove_clock() == half && b.fullmove_number() == full);
    let (nh, nf) = (n.u8(), n.u16());
    n.assume(nh <= 100 && nf >= 1);
    b.set_halfmove_clock(nh);
    b.set_fullmove_number(nf);
    assert!(b.halfmove_clock() == nh && b.fullmove_number() == nf);
    assert!(pos_of(&b).same(&p));
    assert!(refm::accepts(&p, nh, nf));
}

/// The setters refuse out-of-range clocks (so no board with clocks out of range is handed out).
pub fn setters_panic<N: Nd>(n: &mut N, which: u8) {
    let (p, half, full) = sym_accepted(n);
    let mut b = board_of(&p, half, full, n.u64());
    if which == 0 {
        let nh = n.u8();
        n.assume(nh > 100);
        if n.native() {
            println!("witness: set_halfmove_clock({})", nh);
        }
        b.set_halfmove_clock(nh);
    } else {
        if n.native() {
            println!("witness: set_fullmove_number(0)");
        }
        b.set_fullmove_number(0);
    }
    vcover!(true, "!setter returned on an out-of-range clock");
}

crate::bproofs! {
    #[kani::should_panic]
    c06_set_half_panics => |n: &mut _| setters_panic(n, 0);
    #[kani::should_panic]
    c06_set_full_panics => |n: &mut _| setters_panic(n, 1);
    c06_accessors_setters => accessors_setters;
    c06_v_board_a4 => |n: &mut _| v_board(n, 4);
    c06_v_board_a8 => |n: &mut _| v_board(n, 8);
    c06_v_board_a16 => |n: &mut _| v_board(n, 16);
    c06_v_fresh_w_a4 => |n: &mut _| v_fresh(n, 4, 0);
    c06_v_fresh_b_a4 => |n: &mut _| v_fresh(n, 4, 1);
    c06_v_fresh_w_a8 => |n: &mut _| v_fresh(n, 8, 0);
    c06_v_fresh_b_a8 => |n: &mut _| v_fresh(n, 8, 1);
    c06_v_fresh_w_a16 => |n: &mut _| v_fresh(n, 16, 0);
    c06_v_fresh_b_a16 => |n: &mut _| v_fresh(n, 16, 1);
    c06_v_ckpin_a4 => |n: &mut _| v_ckpin(n, 4);
    c06_v_ckpin_a8 => |n: &mut _| v_ckpin(n, 8);
    c06_v_ckpin_a16 => |n: &mut _| v_ckpin(n, 16);
    c06_v_castle => v_castle;
    c06_v_ep => v_ep;
    c06_v_clocks => v_clocks;
    c09_from_board_n4 => |n: &mut _| from_board(n, 4);
    c09_from_board_n16 => |n: &mut _| from_board(n, 16);
    c06_startpos => startpos;
    #[kani::stub(cozy_chess::Board::board_is_valid, crate::c06::stub_board_is_valid)]
    #[kani::stub(cozy_chess::Board::checkers_and_pins_are_valid, crate::c06::stub_ckpin_valid)]
    #[kani::stub(cozy_chess::Board::castle_rights_are_valid, crate::c06::stub_castle_valid)]
    #[kani::stub(cozy_chess::Board::en_passant_is_valid, crate::c06::stub_ep_valid)]
    #[kani::stub(cozy_chess::Board::calculate_checkers_and_pins, crate::c06::stub_calc)]
    c09_build_seq_r148 => |n: &mut _| build_seq(n, false, 0b10001001);
    #[kani::stub(cozy_chess::Board::board_is_valid, crate::c06::stub_board_is_valid)]
    #[kani::stub(cozy_chess::Board::checkers_and_pins_are_valid, crate::c06::stub_ckpin_valid)]
    #[kani::stub(cozy_chess::Board::castle_rights_are_valid, crate::c06::stub_castle_valid)]
    #[kani::stub(cozy_chess::Board::en_passant_is_valid, crate::c06::stub_ep_valid)]
    #[kani::stub(cozy_chess::Board::calculate_checkers_and_pins, crate::c06::stub_calc)]
    c09_build_seq_r158 => |n: &mut _| build_seq(n, false, 0b10010001);
    #[kani::stub(cozy_chess::Board::board_is_valid, crate::c06::stub_board_is_valid)]
    #[kani::stub(cozy_chess::Board::checkers_and_pins_are_valid, crate::c06::stub_ckpin_valid)]
    #[kani::stub(cozy_chess::Board::castle_rights_are_valid, crate::c06::stub_castle_valid)]
    #[kani::stub(cozy_chess::Board::en_passant_is_valid, crate::c06::stub_ep_valid)]
    #[kani::stub(cozy_chess::Board::calculate_checkers_and_pins, crate::c06::stub_calc)]
    c09_build_seq_r267 => |n: &mut _| build_seq(n, false, 0b01100010);
    #[kani::stub(cozy_chess::Board::board_is_valid, crate::c06::stub_board_is_valid)]
    #[kani::stub(cozy_chess::Board::checkers_and_pins_are_valid, crate::c06::stub_ckpin_valid)]
    #[kani::stub(cozy_chess::Board::castle_rights_are_valid, crate::c06::stub_castle_valid)]
    #[kani::stub(cozy_chess::Board::en_passant_is_valid, crate::c06::stub_ep_valid)]
    #[kani::stub(cozy_chess::Board::calculate_checkers_and_pins, crate::c06::stub_calc)]
    c09_build_seq_r237 => |n: &mut _| build_seq(n, false, 0b01000110);
    #[kani::stub(cozy_chess::Board::board_is_valid, crate::c06::stub_board_is_valid)]
    #[kani::stub(cozy_chess::Board::checkers_and_pins_are_valid, crate::c06::stub_ckpin_valid)]
    #[kani::stub(cozy_chess::Board::castle_rights_are_valid, crate::c06::stub_castle_valid)]
    #[kani::stub(cozy_chess::Board::en_passant_is_valid, crate::c06::stub_ep_valid)]
    #[kani::stub(cozy_chess::Board::calculate_checkers_and_pins, crate::c06::stub_calc)]
    c09_build_seq_r1458 => |n: &mut _| build_seq(n, false, 0b1001_1001);
    #[kani::stub(cozy_chess::Board::board_is_valid, crate::c06::stub_board_is_valid)]
    #[kani::stub(cozy_chess::Board::checkers_and_pins_are_valid, crate::c06::stub_ckpin_valid)]
    #[kani::stub(cozy_chess::Board::castle_rights_are_valid, crate::c06::stub_castle_valid)]
    #[kani::stub(cozy_chess::Board::en_passant_is_valid, crate::c06::stub_ep_valid)]
    #[kani::stub(cozy_chess::Board::calculate_checkers_and_pins, crate::c06::stub_calc)]
    c09_build_seq_r2367 => |n: &mut _| build_seq(n, false, 0b0110_0110);
    #[kani::stub(cozy_chess::Board::board_is_valid, crate::c06::stub_board_is_valid)]
    #[kani::stub(cozy_chess::Board::checkers_and_pins_are_valid, crate::c06::stub_ckpin_valid)]
    #[kani::stub(cozy_chess::Board::castle_rights_are_valid, crate::c06::stub_castle_valid)]
    #[kani::stub(cozy_chess::Board::en_passant_is_valid, crate::c06::stub_ep_valid)]
    #[kani::stub(cozy_chess::Board::calculate_checkers_and_pins, crate::c06::stub_calc)]
    c09_build_seq => |n: &mut _| build_seq(n, false, 0xFF);
    #[kani::stub(cozy_chess::Board::board_is_valid, crate::c06::stub_board_is_valid)]
    #[kani::stub(cozy_chess::Board::checkers_and_pins_are_valid, crate::c06::stub_ckpin_valid)]
    #[kani::stub(cozy_chess::Board::castle_rights_are_valid, crate::c06::stub_castle_valid)]
    #[kani::stub(cozy_chess::Board::en_passant_is_valid, crate::c06::stub_ep_valid)]
    #[kani::stub(cozy_chess::Board::calculate_checkers_and_pins, crate::c06::stub_calc)]
    c09_build_seq_hash => |n: &mut _| build_seq(n, true, 0xFF);
}
