//! Verification harnesses for cozy-chess (solver-based checking of the real code).
//!
//! Every harness body is generic over `Nd`: under Kani the values are
//! `kani::any()`, natively they are replayed from a solver counterexample.

#![allow(clippy::all)]
#![recursion_limit = "1024"]

pub mod nd;
pub mod refm;
pub mod stubs;
pub mod sym;
pub mod util;

#[cfg(cozy_chess_verif)]
pub mod brd;
#[cfg(cozy_chess_verif)]
pub mod full;
#[cfg(cozy_chess_verif)]
pub mod san;
#[cfg(cozy_chess_verif)]
pub mod c05;
#[cfg(cozy_chess_verif)]
pub mod c06;
#[cfg(cozy_chess_verif)]
pub mod c08;
#[cfg(cozy_chess_verif)]
pub mod c16;
#[cfg(cozy_chess_verif)]
pub mod c20;
#[cfg(cozy_chess_verif)]
pub mod c17;
#[cfg(cozy_chess_verif)]
pub mod glue;
#[cfg(cozy_chess_verif)]
pub mod zob;
#[cfg(cozy_chess_verif)]
pub mod c18;
#[cfg(cozy_chess_verif)]
pub mod c19;

/// Declares the proof harnesses of a module: a `#[kani::proof]` function per
/// entry plus a native registry entry (name -> replayable body).
#[macro_export]
macro_rules! proofs {
    ( $( $(#[$m:meta])* $name:ident => $body:expr ; )* ) => {
        $(
            #[cfg(kani)]
            #[kani::proof]
            $(#[$m])*
            pub fn $name() {
                let mut n = $crate::nd::KaniNd;
                ($body)(&mut n)
            }
        )*
        pub fn registry() -> Vec<(&'static str, fn(&mut $crate::nd::Recorded))> {
            vec![ $( (stringify!($name), (|n: &mut $crate::nd::Recorded| ($body)(n)) as fn(&mut $crate::nd::Recorded)) ),* ]
        }
    };
}

#[cfg(cozy_chess_verif)]
pub fn registry() -> Vec<(&'static str, fn(&mut nd::Recorded))> {
    let mut v = Vec::new();
    v.extend(brd::registry());
    v.extend(full::registry());
    v.extend(san::registry());
    v.extend(c05::registry());
    v.extend(c06::registry());
    v.extend(c08::registry());
    v.extend(c16::registry());
    v.extend(c20::registry());
    v.extend(c17::registry());
    v.extend(glue::registry());
    v.extend(zob::registry());
    v.extend(c18::registry());
    v.extend(c19::registry());
    v
}
