//! C05 — attack and geometry lookups equal their geometric definition.
crate::proofs! {
}
