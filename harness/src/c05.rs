//! C05 — attack and geometry lookups equal their geometric definition.
//!
//! Three layers:
//!  * the real small tables / functions against coordinate-arithmetic definitions,
//!  * the bit-parallel reference formulas (also used as stubs elsewhere) against
//!    the same definitions and against the real functions (whole bitboards),
//!  * the const slider variants against the reference, for every square and occupancy.
//! The magic / PEXT table back ends are decided by the MIR->SMT engine (lib/e2.py).

use crate::nd::Nd;
use crate::refm;
use crate::stubs;
use crate::sym::*;
use crate::vcover;
use cozy_chess::*;

fn sym_sq<N: Nd>(n: &mut N) -> u8 {
    let s = n.u8();
    n.assume(s < 64);
    s
}

fn d(a: u8, b: u8) -> (i16, i16) {
    ((b & 7) as i16 - (a & 7) as i16, (b >> 3) as i16 - (a >> 3) as i16)
}

fn abs(x: i16) -> i16 {
    if x < 0 {
        -x
    } else {
        x
    }
}

/// Knight, king and pawn attacks: the real functions, the geometric definition
/// and the stub formulas agree for every square (and colour), on every target.
pub fn leapers<N: Nd>(n: &mut N) {
    let s = sym_sq(n);
    let t = sym_sq(n);
    let c = n.u8();
    n.assume(c < 2);
    let (dx, dy) = d(s, t);
    let kn = (abs(dx) == 1 && abs(dy) == 2) || (abs(dx) == 2 && abs(dy) == 1);
    let kg = (abs(dx) <= 1 && abs(dy) <= 1) && s != t;
    let pw = abs(dx) == 1 && dy == if c == 0 { 1 } else { -1 };
    assert!(get_knight_moves(sq(s)).has(sq(t)) == kn);
    assert!(get_king_moves(sq(s)).has(sq(t)) == kg);
    assert!(get_pawn_attacks(sq(s), color(c)).has(sq(t)) == pw);
    assert!(get_knight_moves(sq(s)) == stubs::knight_moves(sq(s)));
    assert!(get_king_moves(sq(s)) == stubs::king_moves(sq(s)));
    assert!(get_pawn_attacks(sq(s), color(c)) == stubs::pawn_attacks(sq(s), color(c)));
    vcover!(kn && s & 7 == 0, "knight on the a-file");
}

/// Pawn pushes for every square, colour and occupancy.
pub fn pawn_quiets<N: Nd>(n: &mut N) {
    let s = sym_sq(n);
    let t = sym_sq(n);
    let c = n.u8();
    n.assume(c < 2);
    let occ = n.u64();
    let (dx, dy) = d(s, t);
    let fwd = if c == 0 { 1 } else { -1 };
    let free = |q: i16| q >= 0 && q < 64 && (occ >> q) & 1 == 0;
    let one = s as i16 + 8 * fwd;
    let start_rank = (s >> 3) == if c == 0 { 1 } else { 6 };
    let single = dx == 0 && dy == fwd && free(one);
    let double = dx == 0 && dy == 2 * fwd && start_rank && free(one) && free(t as i16);
    assert!(get_pawn_quiets(sq(s), color(c), BitBoard(occ)).has(sq(t)) == (single || double));
    vcover!(double, "a double push");
    vcover!(s >> 3 == 7 && c == 0, "white pawn on the last rank");
}

/// Empty-board rays, between and line: real tables vs coordinate geometry vs stubs.
pub fn rays_between_line<N: Nd>(n: &mut N) {
    let a = sym_sq(n);
    let b = sym_sq(n);
    let t = sym_sq(n);
    let (dx, dy) = d(a, b);
    let orth = (dx == 0) != (dy == 0);
    let diag = abs(dx) == abs(dy) && dx != 0;
    assert!(get_rook_rays(sq(a)).has(sq(b)) == orth);
    assert!(get_bishop_rays(sq(a)).has(sq(b)) == diag);
    assert!(get_rook_rays(sq(a)) == stubs::rook_rays(sq(a)));
    assert!(get_bishop_rays(sq(a)) == stubs::bishop_rays(sq(a)));
    // t relative to a
    let (ex, ey) = d(a, t);
    let aligned = orth || diag;
    let collinear = ex * dy - ey * dx == 0;
    let dot = ex * dx + ey * dy;
    let len2 = dx * dx + dy * dy;
    let strictly_between = aligned && collinear && dot > 0 && dot < len2;
    let on_line = aligned && collinear;
    assert!(get_between_rays(sq(a), sq(b)).has(sq(t)) == strictly_between);
    assert!(get_line_rays(sq(a), sq(b)).has(sq(t)) == on_line);
    assert!(get_between_rays(sq(a), sq(b)) == stubs::between_rays(sq(a), sq(b)));
    assert!(get_line_rays(sq(a), sq(b)) == stubs::line_rays(sq(a), sq(b)));
    vcover!(strictly_between && diag, "a square strictly between on a diagonal");
    vcover!(on_line && !strictly_between && t != a && t != b, "on the line beyond the end points");
}

/// The reference slider attacks (Kogge-Stone fills, used as stubs) equal a naive
/// walk along each ray up to and including the first occupied square.
pub fn ks_vs_walk<N: Nd>(n: &mut N) {
    let s = sym_sq(n);
    let occ = n.u64();
    const DIRS: [(i16, i16); 8] = [(0, 1), (0, -1), (1, 0), (-1, 0), (1, 1), (-1, 1), (1, -1), (-1, -1)];
    let mut rook = 0u64;
    let mut bishop = 0u64;
    let mut di = 0;
    while di < 8 {
        let (fx, fy) = DIRS[di];
        let mut x = (s & 7) as i16;
        let mut y = (s >> 3) as i16;
        let mut acc = 0u64;
        let mut open = true;
        let mut k = 0;
        while k < 7 {
            x += fx;
            y += fy;
            let inside = x >= 0 && x < 8 && y >= 0 && y < 8;
            open &= inside;
            let q = ((y * 8 + x) & 63) as u32;
            acc |= (1u64 << q) & refm::mask(open);
            open &= (occ >> q) & 1 == 0;
            k += 1;
        }
        if di < 4 {
            rook |= acc;
        } else {
            bishop |= acc;
        }
        assert!(refm::ray(di, 1u64 << s, occ) == acc);
        di += 1;
    }
    assert!(refm::rook_att(1u64 << s, occ) == rook);
    assert!(refm::bishop_att(1u64 << s, occ) == bishop);
}

/// The const slider variants equal the reference for every square and occupancy.
pub fn const_sliders<N: Nd>(n: &mut N, rook: bool) {
    let s = sym_sq(n);
    let occ = n.u64();
    if rook {
        assert!(get_rook_moves_const(sq(s), BitBoard(occ)).0 == refm::rook_att(1u64 << s, occ));
    } else {
        assert!(get_bishop_moves_const(sq(s), BitBoard(occ)).0 == refm::bishop_att(1u64 << s, occ));
    }
}

/// Relevant-blocker masks used to build the table: the squares a slider passes
/// over before the last square of each ray (edges excluded).
pub fn relevant_blockers<N: Nd>(n: &mut N) {
    let s = sym_sq(n);
    let t = sym_sq(n);
    let (dx, dy) = d(s, t);
    let (tx, ty) = ((t & 7) as i16, (t >> 3) as i16);
    let orth = (dx == 0) != (dy == 0);
    let diag = abs(dx) == abs(dy) && dx != 0;
    // a rook blocker on the far edge of its ray is irrelevant
    let rook_rel = orth && ((dy == 0 && tx != 0 && tx != 7) || (dx == 0 && ty != 0 && ty != 7));
    let bishop_rel = diag && tx != 0 && tx != 7 && ty != 0 && ty != 7;
    assert!(cozy_chess_types::get_rook_relevant_blockers(sq(s)).has(sq(t)) == rook_rel);
    assert!(cozy_chess_types::get_bishop_relevant_blockers(sq(s)).has(sq(t)) == bishop_rel);
}

/// Bridge for the SMT engine (magic back end): the compiled index functions equal
/// `offset + (((occ | neg_mask) * magic) >> (64 - bits))` with the per-square
/// constants the hook reports, for every square and occupancy.
#[cfg(not(feature = "pext"))]
pub fn magic_bridge<N: Nd>(n: &mut N, rook: bool) {
    let s = sym_sq(n);
    let occ = n.u64();
    let (neg_mask, magic, offset, bits) = cozy_chess_types::verif_index_entry(rook, sq(s));
    let want = offset as usize + ((occ | neg_mask).wrapping_mul(magic) >> (64 - bits)) as usize;
    let got = if rook {
        cozy_chess_types::get_rook_moves_index(sq(s), BitBoard(occ))
    } else {
        cozy_chess_types::get_bishop_moves_index(sq(s), BitBoard(occ))
    };
    assert!(got == want);
    assert!(got < cozy_chess_types::SLIDING_MOVE_TABLE_SIZE);
    // the mask is the complement of the relevant blockers
    let rel = if rook {
        cozy_chess_types::get_rook_relevant_blockers(sq(s))
    } else {
        cozy_chess_types::get_bishop_relevant_blockers(sq(s))
    };
    assert!(neg_mask == !rel.0);
}

#[cfg(feature = "pext")]
pub fn magic_bridge<N: Nd>(_n: &mut N, _rook: bool) {}

crate::proofs! {
    #[kani::unwind(10)]
    c05_leapers => leapers;
    #[kani::unwind(4)]
    c05_pawn_quiets => pawn_quiets;
    #[kani::unwind(10)]
    c05_rays_between_line => rays_between_line;
    #[kani::unwind(10)]
    c05_ks_vs_walk => ks_vs_walk;
    #[kani::unwind(10)]
    c05_const_rook => |n: &mut _| const_sliders(n, true);
    #[kani::unwind(10)]
    c05_const_bishop => |n: &mut _| const_sliders(n, false);
    #[kani::unwind(66)]
    c05_relevant_blockers => relevant_blockers;
    #[kani::unwind(66)]
    c05_magic_bridge_rook => |n: &mut _| magic_bridge(n, true);
    #[kani::unwind(66)]
    c05_magic_bridge_bishop => |n: &mut _| magic_bridge(n, false);
}
