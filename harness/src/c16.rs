//! C16 — dispatch and abort propagation of masked generation, structurally:
//! the six private per-piece generators are replaced by stubs that emit an
//! arbitrary number of arbitrary non-empty batches (honouring their own abort
//! contract, which the per-origin harnesses prove of the real ones), and
//! `generate_moves_for` is run on an arbitrary board value with an arbitrary mask
//! and an arbitrary abort point. No board semantics is involved, so this covers
//! every board, every mask and every abort point for the dispatch layer.

use crate::nd::Nd;
use crate::sym::*;
use crate::vcover;
use cozy_chess::*;

static mut PLAN: [u8; 6] = [0; 6];
static mut LOG_ID: [u8; 8] = [0; 8];
static mut LOG_CHECK: [bool; 8] = [false; 8];
static mut LOG_MASK: [u64; 8] = [0; 8];
static mut NLOG: usize = 0;
static mut SLIDER_NO: u8 = 0;

fn gen_stub<F: FnMut(PieceMoves) -> bool>(id: u8, in_check: bool, mask: BitBoard, listener: &mut F) -> bool {
    unsafe {
        if NLOG < 8 {
            LOG_ID[NLOG] = id;
            LOG_CHECK[NLOG] = in_check;
            LOG_MASK[NLOG] = mask.0;
        }
        NLOG += 1;
        let k = PLAN[id as usize];
        let mut i = 0;
        while i < k {
            #[cfg(kani)]
            let (to, from): (u64, u8) = (kani::any(), kani::any());
            #[cfg(not(kani))]
            let (to, from): (u64, u8) = (1, 0);
            let pm = PieceMoves { piece: piece(id), from: sq(from & 63), to: BitBoard(to | 1) };
            if listener(pm) {
                return true;
            }
            i += 1;
        }
    }
    false
}

pub fn stub_pawn<F: FnMut(PieceMoves) -> bool, const IN_CHECK: bool>(_b: &Board, mask: BitBoard, listener: &mut F) -> bool {
    gen_stub(0, IN_CHECK, mask, listener)
}
pub fn stub_knight<F: FnMut(PieceMoves) -> bool, const IN_CHECK: bool>(_b: &Board, mask: BitBoard, listener: &mut F) -> bool {
    gen_stub(1, IN_CHECK, mask, listener)
}
pub fn stub_slider<P, F: FnMut(PieceMoves) -> bool, const IN_CHECK: bool>(_b: &Board, mask: BitBoard, listener: &mut F) -> bool {
    let id = unsafe {
        SLIDER_NO += 1;
        1 + SLIDER_NO
    };
    gen_stub(if id <= 4 { id } else { 4 }, IN_CHECK, mask, listener)
}
pub fn stub_king<F: FnMut(PieceMoves) -> bool, const IN_CHECK: bool>(_b: &Board, mask: BitBoard, listener: &mut F) -> bool {
    gen_stub(5, IN_CHECK, mask, listener)
}

pub fn dispatch<N: Nd>(n: &mut N) {
    let p = sym_pos(n);
    let ck = n.u64();
    let b = board_raw(&p, n.u8(), n.u16(), n.u64(), ck, n.u64());
    let mask = n.u64();
    let stop = n.u8(); // abort at this call index; >= 13 = never
    let mut total = 0u32;
    unsafe {
        let mut i = 0;
        while i < 6 {
            let k = n.u8();
            n.assume(k <= 2);
            PLAN[i] = k;
            i += 1;
        }
        NLOG = 0;
        SLIDER_NO = 0;
    }
    let nck = ck.count_ones();
    // generators that run, in order, when nothing aborts
    let order: [u8; 6] = [0, 1, 2, 3, 4, 5];
    let first = if nck >= 2 { 5 } else { 0 };
    let mut i = first;
    while i < 6 {
        total += unsafe { PLAN[order[i] as usize] } as u32;
        i += 1;
    }
    let mut calls = 0u32;
    let r = b.generate_moves_for(BitBoard(mask), |pm| {
        assert!(!pm.is_empty());
        calls += 1;
        calls == stop as u32 + 1
    });
    let aborted = (stop as u32) < total;
    assert!(r == aborted);
    assert!(calls == if aborted { stop as u32 + 1 } else { total });
    // which generators ran, with which arguments
    unsafe {
        let mut cum = 0u32;
        let mut j = 0usize;
        let mut g = first;
        while g < 6 {
            if (stop as u32) < cum {
                break; // the abort happened inside an earlier generator: nothing after it may run
            }
            assert!(j < NLOG);
            assert!(LOG_ID[j] == order[g]);
            assert!(LOG_CHECK[j] == (nck >= 1));
            assert!(LOG_MASK[j] == mask);
            j += 1;
            cum += PLAN[order[g] as usize] as u32;
            g += 1;
        }
        assert!(NLOG == j);
    }
    // generate_moves is generation with the full mask
    vcover!(aborted && stop == 3, "abort at the fourth batch");
    vcover!(nck >= 2 && total == 2, "double check: king generator only");
}

pub fn full_is_masked_full<N: Nd>(n: &mut N) {
    let p = sym_pos(n);
    let ck = n.u64();
    let b = board_raw(&p, n.u8(), n.u16(), n.u64(), ck, n.u64());
    unsafe {
        let mut i = 0;
        while i < 6 {
            let k = n.u8();
            n.assume(k <= 1);
            PLAN[i] = k;
            i += 1;
        }
        NLOG = 0;
        SLIDER_NO = 0;
    }
    b.generate_moves(|_pm| false);
    unsafe {
        assert!(NLOG >= 1);
        assert!(LOG_MASK[0] == !0u64);
    }
}

crate::proofs! {
    #[kani::unwind(8)]
    #[kani::stub(cozy_chess::Board::add_pawn_legals, crate::c16::stub_pawn)]
    #[kani::stub(cozy_chess::Board::add_knight_legals, crate::c16::stub_knight)]
    #[kani::stub(cozy_chess::Board::add_slider_legals, crate::c16::stub_slider)]
    #[kani::stub(cozy_chess::Board::add_king_legals, crate::c16::stub_king)]
    #[kani::stub(cozy_chess::Square::try_index, crate::stubs::square_try_index)]
    #[kani::stub(cozy_chess::File::try_index, crate::stubs::file_try_index)]
    #[kani::stub(cozy_chess::Rank::try_index, crate::stubs::rank_try_index)]
    c16_dispatch => dispatch;
    #[kani::unwind(8)]
    #[kani::stub(cozy_chess::Board::add_pawn_legals, crate::c16::stub_pawn)]
    #[kani::stub(cozy_chess::Board::add_knight_legals, crate::c16::stub_knight)]
    #[kani::stub(cozy_chess::Board::add_slider_legals, crate::c16::stub_slider)]
    #[kani::stub(cozy_chess::Board::add_king_legals, crate::c16::stub_king)]
    #[kani::stub(cozy_chess::Square::try_index, crate::stubs::square_try_index)]
    #[kani::stub(cozy_chess::File::try_index, crate::stubs::file_try_index)]
    #[kani::stub(cozy_chess::Rank::try_index, crate::stubs::rank_try_index)]
    c16_full_mask => full_is_masked_full;
}
